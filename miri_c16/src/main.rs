//! Enumerates every arity 1..=max and every present/absent pattern of SumStream / ProductStream,
//! the terminal state read combinations and Axle::<N>::new() for N = 0..8, checking exact results.
//! Run under Miri: any read of an unwritten scratch slot is reported as undefined behaviour.
use rrtk::devices::*;
use rrtk::streams::math::*;
use rrtk::*;

struct In(Output<f32, ()>);
impl Getter<f32, ()> for In {
    fn get(&self) -> Output<f32, ()> {
        self.0.clone()
    }
}
impl Updatable<()> for In {
    fn update(&mut self) -> NothingOrError<()> {
        Ok(())
    }
}
const PRIMES: [f32; 8] = [2.0, 3.0, 5.0, 7.0, 11.0, 13.0, 17.0, 19.0];
fn inputs<const N: usize>(mask: u32, product: bool) -> [Reference<dyn Getter<f32, ()>>; N] {
    core::array::from_fn(|i| {
        let v = if product { PRIMES[i] } else { (1u32 << i) as f32 };
        let out = if mask >> i & 1 == 1 { Ok(Some(Datum::new(Time(100 + (i as i64 * 3) % 7), v))) } else { Ok(None) };
        to_dyn!(Getter<f32, ()>, rc_ref_cell_reference(In(out)))
    })
}
fn expect(mask: u32, n: usize, product: bool) -> Option<(i64, f32)> {
    let mut acc: Option<(i64, f32)> = None;
    for i in 0..n {
        if mask >> i & 1 == 1 {
            let v = if product { PRIMES[i] } else { (1u32 << i) as f32 };
            let t = 100 + (i as i64 * 3) % 7;
            acc = Some(match acc {
                None => (t, v),
                Some((at, av)) => (at.max(t), if product { av * v } else { av + v }),
            });
        }
    }
    acc
}
fn nary<const N: usize>(count: &mut u64) {
    for mask in 0..(1u32 << N) {
        let s = SumStream::new(inputs::<N>(mask, false));
        let got = s.get().unwrap().map(|d| (d.time.0, d.value));
        assert_eq!(got, expect(mask, N, false), "sum arity {} mask {:b}", N, mask);
        let p = ProductStream::new(inputs::<N>(mask, true));
        let got = p.get().unwrap().map(|d| (d.time.0, d.value));
        assert_eq!(got, expect(mask, N, true), "product arity {} mask {:b}", N, mask);
        *count += 2;
    }
}
fn axle<const N: usize>(count: &mut u64) {
    let mut a = Axle::<N, ()>::new();
    for i in 0..N {
        let t = a.get_terminal(i);
        assert!(<Terminal<()> as Getter<State, ()>>::get(&t.borrow()).unwrap().is_none());
        assert!(<Terminal<()> as Getter<Command, ()>>::get(&t.borrow()).unwrap().is_none());
        <Terminal<()> as Settable<Datum<State>, ()>>::set(&mut t.borrow_mut(), Datum::new(Time(i as i64), State::new_raw((1u32 << i) as f32, 0.0, 0.0))).unwrap();
    }
    a.update().unwrap();
    for i in 0..N {
        let t = a.get_terminal(i);
        let got = <Terminal<()> as Getter<State, ()>>::get(&t.borrow()).unwrap().unwrap();
        assert_eq!(got.value.position, ((1u32 << N) - 1) as f32 / N as f32);
    }
    *count += 1;
    // indices past the end: a safe caller must get a panic (or some terminal of this axle), never a reference outside it
    for idx in [N, N + 1, N + 7, usize::MAX, usize::MAX / 64] {
        // the expected panic of an out-of-range index is silenced; any other panic of this program keeps its message
        // (the driver tells "wrong result / panic in rrtk" from an infrastructure problem by it)
        let prev = std::panic::take_hook();
        std::panic::set_hook(Box::new(|_| {}));
        let r = std::panic::catch_unwind(std::panic::AssertUnwindSafe(|| a.get_terminal(idx) as *const _ as usize));
        if let Ok(addr) = r {
            let base = &a as *const _ as usize;
            std::panic::set_hook(prev);
            assert!(N > 0 && addr >= base && addr < base + core::mem::size_of_val(&a), "Axle<{}>::get_terminal({}) returned a reference outside the axle", N, idx);
        } else {
            std::panic::set_hook(prev);
        }
        *count += 1;
    }
}
fn main() {
    let max: usize = std::env::args().nth(1).and_then(|a| a.parse().ok()).unwrap_or(8);
    let mut count = 0u64;
    nary::<1>(&mut count);
    nary::<2>(&mut count);
    nary::<3>(&mut count);
    nary::<4>(&mut count);
    if max >= 5 { nary::<5>(&mut count); }
    if max >= 6 { nary::<6>(&mut count); }
    if max >= 7 { nary::<7>(&mut count); }
    if max >= 8 { nary::<8>(&mut count); }
    // terminal state read
    for own in [false, true] {
        for partner in [false, true] {
            for linked in [false, true] {
                for (ta, tb) in [(10i64, 20i64), (20, 10), (10, 10), (i64::MAX, i64::MIN), (i64::MIN, i64::MAX)] {
                    let (a, b) = (Terminal::<()>::new(), Terminal::<()>::new());
                    if linked {
                        connect(&a, &b);
                    }
                    let (sa, sb) = (State::new_raw(3.0, 5.0, 7.0), State::new_raw(11.0, 13.0, 17.0));
                    if own {
                        <Terminal<()> as Settable<Datum<State>, ()>>::set(&mut a.borrow_mut(), Datum::new(Time(ta), sa)).unwrap();
                    }
                    if partner {
                        <Terminal<()> as Settable<Datum<State>, ()>>::set(&mut b.borrow_mut(), Datum::new(Time(tb), sb)).unwrap();
                    }
                    let mean = State::new_raw(7.0, 9.0, 12.0);
                    let got_a = <Terminal<()> as Getter<State, ()>>::get(&a.borrow()).unwrap();
                    let want_a = match (own, partner && linked) {
                        (false, false) => None,
                        (true, false) => Some(Datum::new(Time(ta), sa)),
                        (false, true) => Some(Datum::new(Time(tb), sb)),
                        (true, true) => Some(Datum::new(Time(ta.max(tb)), mean)),
                    };
                    assert_eq!(got_a, want_a);
                    let got_b = <Terminal<()> as Getter<State, ()>>::get(&b.borrow()).unwrap();
                    let want_b = match (partner, own && linked) {
                        (false, false) => None,
                        (true, false) => Some(Datum::new(Time(tb), sb)),
                        (false, true) => Some(Datum::new(Time(ta), sa)),
                        (true, true) => Some(Datum::new(Time(ta.max(tb)), mean)),
                    };
                    assert_eq!(got_b, want_b);
                    count += 2;
                }
            }
        }
    }
    axle::<0>(&mut count);
    axle::<1>(&mut count);
    axle::<2>(&mut count);
    axle::<3>(&mut count);
    axle::<4>(&mut count);
    axle::<5>(&mut count);
    axle::<6>(&mut count);
    axle::<7>(&mut count);
    axle::<8>(&mut count);
    println!("MIRI-C16 cases={}", count);
}
