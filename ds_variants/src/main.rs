//! Reads handle sequences (one per line) on stdin, runs each through the shared interpreter and
//! answers `ok <nontrivial>` or `fail <key>\t<message>` per line.
#![allow(dead_code)]
#[path = "../../harness/shared/ref_interp.rs"]
mod ref_interp;
use std::io::{BufRead, Write};

fn main() {
    std::panic::set_hook(Box::new(|_| {}));
    let stdin = std::io::stdin();
    let stdout = std::io::stdout();
    let mut out = stdout.lock();
    for line in stdin.lock().lines() {
        let line = match line {
            Ok(l) => l,
            Err(_) => break,
        };
        if line.trim().is_empty() {
            continue;
        }
        let answer = match ref_interp::decode(&line) {
            None => "fail C17/protocol\tunparsable line".to_string(),
            Some((variant, ops)) => match std::panic::catch_unwind(|| ref_interp::run(variant, &ops)) {
                Ok(Ok(info)) => format!("ok {}", info.nontrivial as u8),
                Ok(Err((key, msg))) => format!("fail {}\t{}", key, msg.replace('\n', " ")),
                Err(_) => format!("fail C17/unexpected-panic/{:?}\tpanic outside to_dyn!", variant),
            },
        };
        writeln!(out, "{}", answer).unwrap();
    }
    out.flush().unwrap();
}
