//! Reads one JSON program per line on stdin, answers one JSON trace (list of token lists) per line.
#![allow(dead_code)]
#[path = "../../harness/shared/devs.rs"]
mod devs;
#[path = "../../harness/shared/sutcore.rs"]
mod sutcore;
#[path = "../../harness/shared/workload.rs"]
mod workload;
use std::io::{BufRead, Write};

fn main() {
    std::panic::set_hook(Box::new(|_| {}));
    let stdin = std::io::stdin();
    let stdout = std::io::stdout();
    let mut out = stdout.lock();
    for line in stdin.lock().lines() {
        let Ok(line) = line else { break };
        if line.trim().is_empty() {
            continue;
        }
        let answer = match serde_json::from_str::<workload::Program>(&line) {
            Ok(p) => serde_json::to_string(&workload::run_program(&p)).unwrap(),
            Err(e) => serde_json::to_string(&vec![vec![format!("PROTOCOL-ERROR {}", e)]]).unwrap(),
        };
        writeln!(out, "{}", answer).unwrap();
        out.flush().unwrap();
    }
}
