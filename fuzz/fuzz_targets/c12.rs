#![no_main]
use libfuzzer_sys::fuzz_target;
fuzz_target!(|data: &[u8]| {
    checks::fuzz::run::<checks::c12::C12>(data);
});
