#![no_main]
//! libFuzzer target for C06: the input is the property's scenario as JSON (see harness/checks/src/fuzz.rs).
use libfuzzer_sys::{fuzz_mutator, fuzz_target};
type P = checks::mp::C06;
fuzz_target!(|data: &[u8]| {
    checks::fuzz::run::<P>(data);
});
fuzz_mutator!(|data: &mut [u8], size: usize, max_size: usize, seed: u32| { checks::fuzz::mutate::<P>(data, size, max_size, seed) });
