#![no_main]
use libfuzzer_sys::fuzz_target;
fuzz_target!(|data: &[u8]| {
    checks::fuzz::run::<checks::c04::C04>(data);
});
