HOOK_COMMITS = []
IMPLEMENTED = {"C09"}
TABLE = {
 "C09": {
  "technique": "model-based property testing: exhaustive matching x operation enumeration + random op histories vs a partner-array model",
  "text": "Every matching on 2..6 terminals x every connect/disconnect is executed on real terminals and compared with a partner-array model (links inferred from coded state reads), plus thousands of random connect/disconnect/set histories whose state, command and combined reads are compared with the model after every step; panics are caught and reported. Exploration level: the finite transition space named by the quantifier is covered completely, values and longer histories by sampling.",
  "note": "Links are private, so they are inferred from public reads (own state 2^i); assumes terminals are not moved while linked (the API's lifetime hole is C16's subject).",
 },
}
