HOOK_COMMITS = []
IMPLEMENTED = {"C05", "C09"}
TABLE = {
 "C05": {
  "technique": "metamorphic / history-invariant property testing over generated event histories (proptest + exhaustive short histories)",
  "text": "For each of the 14 stateful stream instantiations, all event-kind sequences up to length 5 and thousands of random histories up to 48 events are run on the real stream; after every event the no-stale-error invariant, get-purity (incl. a twin with a different get count), reset equivalence against a freshly constructed stream fed the suffix, and absent-deletion invariance are asserted exactly (bitwise modulo NaN/-0). Exploration: sampled histories, exhaustive only for short ones.",
  "note": "Reset sets are taken from the rustdoc/source comments per stream; values are moderate finite f32; freeze is asserted only as far as the statement goes (windows after an absent/errored condition: purity only).",
 },
 "C09": {
  "technique": "model-based property testing: exhaustive matching x operation enumeration + random op histories vs a partner-array model",
  "text": "Every matching on 2..6 terminals x every connect/disconnect is executed on real terminals and compared with a partner-array model (links inferred from coded state reads), plus thousands of random connect/disconnect/set histories whose state, command and combined reads are compared with the model after every step; panics are caught and reported. Exploration level: the finite transition space named by the quantifier is covered completely, values and longer histories by sampling.",
  "note": "Links are private, so they are inferred from public reads (own state 2^i); assumes terminals are not moved while linked (the API's lifetime hole is C16's subject).",
 },
}
