HOOK_COMMITS = ["c57c4f1"]
IMPLEMENTED = {"C01", "C02", "C03", "C04", "C05", "C06", "C07", "C08", "C09", "C10", "C11", "C12", "C13", "C14", "C15", "C16", "C17", "C18", "C19", "C20"}
TABLE = {
 "C19": {
  "technique": "multi-configuration differential testing of generated API programs (ten builds of one interpreter), with a per-build recomputation oracle for power-function-derived values and a plain-arithmetic oracle for ill-dimensioned programs",
  "text": "Random well-dimensioned programs over quantities, states/commands, data, motion profiles, all stateful and stateless streams and all devices are executed by ten cfgrun binaries built from the same source against rrtk under {std, alloc+libm, alloc+micromath} x {checked, unchecked}, with and without debug assertions, plus the two feature-preference cases (raw base/exponent pairs over the power function's special cases included); traces must be token-identical except for power-function-derived values, which must be identical among builds sharing a power function, within 4 ulp between libm and std, and must satisfy the documented EWMA formula exactly with each build's own power value. Unit-scrambled twins run on the six unchecked builds and must neither panic nor be rejected and must equal both the well-dimensioned run and plain f32/i64 arithmetic.",
  "note": "Ten builds cover every distinct cfg predicate in the sources, not every feature subset. micromath's power function is a coarse approximation by design and is treated as an uninterpreted per-build function. abs() is applied only to non-zero literals (abs(-0.0) keeps its sign without std: value-equal, but amplifiable by a later division).",
  "engine": "rrtk-verif driver + 10 cfgrun binaries",
 },
 "C16": {
  "technique": "exhaustive pattern enumeration with a poison hook and under Miri; grammar-generated safe probe programs with the compiler as oracle (must be rejected) and must-compile control twins",
  "text": "(a) Every arity 1..8 and every present/absent pattern of the n-ary sum/product, every own/partner/linked combination of the terminal state read crossed with five timestamp orders and both ends, Axle<0..8> construction Axle::get_terminal for every in-range index and twelve indices past the end, and three live-target scenarios (a borrow of an Arc<Mutex> / Arc<RwLock> Reference holds its lock; a static_* call site evaluated twice keeps its object) are executed with inputs whose exact result identifies the contributing subset, once with the 0x7F poison hook compiled in and once as a plain program under Miri with the hook off. (b) 126 #![forbid(unsafe_code)] probe programs generated from a grammar (11 terminal accessors x 6 ways of ending or moving the device x 2 uses, plus attempts to build dangling Borrow/BorrowMut/Reference values or call unsafe constructors safely) are each compiled by rustc against the live rrtk: a probe that type-checks is a violation; each probe's control twin must compile. The 66 accessor x scenario combinations that do type-check are recorded as known findings.",
  "note": "Part (b) is bounded to the probe grammar: it refutes, it cannot prove absence over all safe programs. rustc (stable, the repository's toolchain) and Miri (nightly) are trusted oracles.",
  "engine": "rrtk-verif + rustc + cargo +nightly miri",
 },
 "C17": {
  "technique": "model-based property testing of handle sequences in three differently-configured crates (configuration differential) + multi-thread stress with an exact-count oracle",
  "text": "Random and enumerated sequences of clone / to_dyn / borrow / borrow_mut / drop over all six Reference variants are interpreted against a one-shared-cell model with a drop counter; the same interpreter source is compiled into the harness, into a downstream crate built with features named alloc/std, into the same crate built without them, and into a second feature-less crate built against rrtk with `alloc` only and against rrtk without any feature (the three cfg-selected definitions of to_dyn! and the cfg-gated halves of Reference), and all must agree with the model (to_dyn! must not panic for the variants it lists); four library crates ({#![no_std], std} x {with, without cfg(feature = alloc/std)}) calling to_dyn! on Ptr / RcRefCell / PtrRwLock References must compile against the std-built rrtk whenever their twin without the calls does (to_dyn! of an already converted Reference included), and the interpreter crate must compile against an alloc-only and a feature-less rrtk whenever its control build without the to_dyn! expansions does; a borrow taken through an Arc-backed or pointer-to-lock Reference (for PtrRwLock also after to_dyn!) must hold the caller's lock while it lives, and a static_* call site evaluated twice must hand out the same untouched object. 2..8 threads perform read-yield-write increments under borrow_mut() of per-thread References over one Arc/static lock and the final count must be exact; the static_* macros are checked for aliasing per call site.",
  "note": "The OS owns the schedule, so the stress part is a probabilistic lost-update detector; std's locks are trusted. Raw-pointer variants point at live heap objects owned by the harness.",
 },
 "C15": {
  "technique": "stateful (model-based) property testing: generated operation histories interpreted against the real objects and an explicit model, invariant checked after every step",
  "text": "Histories of up to 40 operations (set succeeding/failing, follow, stop_following, update with succeeding/failing forwarding, followed-getter output changes, clock advance/error, set_delta, set_time) run against a recording settable, a ConstantGetter, a CommandPID (set, and following a command getter while its own input is present/absent/erroring), an unconnected and a connected Terminal (both settable halves, following different getters), a TimeGetterFromGetter and a GetterFromHistory built with each of its four constructors over an echo history; after every operation the last request, the exact forwarded sequence, return values, the constant getter, the adapter value (history(now+offset) restamped now) and the time getter are compared with the model.",
  "note": "i64 clock values and offsets are kept within bounds where no sum overflows, as the quantifier states.",
 },
 "C20": {
  "technique": "model-based / differential property testing over generated round histories with recording test doubles; PID wrapper vs a separately driven CommandPID",
  "text": "Each wrapper is driven for up to 32 rounds of terminal data (own slot and/or connected external terminal, state and/or command or nothing) with inner objects that are present/absent/erroring or accept/reject; recording doubles show exactly what the inner settable received and when it was updated, the encoder double latches its reading in update() (so a wrapper that reads before it updates relays stale data) and the encoder's terminal slot is compared bit for bit with the getter's datum, errors must propagate, and the PID wrapper's motor values are compared exactly with a stand-alone CommandPID fed the same (time, state, command) sequence.",
  "note": "What the terminal 'sees' is its combined read just before the update; the motor double forwards followed values in update() as the Settable docs require.",
 },
 "C08": {
  "technique": "model-based property testing over generated multi-round device scenarios: f64 least-squares reference with running error bound, exact one-sided formulas, independent constraint re-check; exhaustive data-presence patterns",
  "text": "Inverters, gear trains (by ratio and by tooth list), axles of 0..6 terminals and differentials in all four trust modes are driven for up to 8 rounds in which each terminal gets data through its own slot, a connected external terminal, both or neither; after each update the own slots are compared with the least-squares projection of the states read just before it (bound x4), with exact formulas for implied values and recomputed branches, with the newest contributing timestamp, and the constraint is re-checked on the written slots. Every own/partner data-presence pattern is enumerated for 13 device shapes.",
  "note": "The device is held to writing only the terminals the statement names (see DESIGN.md C08 note on one-sided updates). Devices are heap-pinned for the case.",
 },
 "C13": {
  "technique": "model-based property testing over generated device chains and command histories with per-update and end-to-end relay oracles",
  "text": "Chains of 1..5 inverters, gear trains and axles joined terminal to terminal receive commands with globally distinct timestamps at random terminals (and, in part of the cases, states with other timestamps) over up to 8 rounds and are updated in chain, reverse or random order; after every device update each of its terminals must read the most recently issued command among those present, with issuer timestamp and kind and the value mapped to the reader side within 2 ulp; after an in-order pass the far end must read the globally newest command scaled by the product of ratios; a differential must leave command slots and reads bit-identical.",
  "note": "Chains use devices with >= 2 terminals; a 1-terminal axle is tested alone. Ties only occur between propagated copies of one command.",
 },
 "C06": {
  "technique": "property testing over generated profiles x boundary-focused query times; oracle = mutual-consistency tables of the accessors with t1..t3 recovered by bisection",
  "text": "For thousands of generated profiles (built-to-be-accepted, unconstrained and accept/reject-edge families; all three end-command kinds) the phase boundaries are recovered from get_piece by bisection and every accessor is queried at i64 extremes, negative times, each boundary +-1 ns and interior points of each phase; piece/mode/acceleration/velocity/position/history must describe the same instant, pieces must be monotone in t, the boundaries printed by the derived Debug impl must satisfy 0 <= t1 <= t2 <= t3, the history value must be bit-identical to the matching accessor, and the end command must be returned forever after completion.",
  "note": "A constructor panic is a legal outcome (counted). Boundaries are private; they are observed through get_piece and, as a second view, parsed from the Debug output (skipped if the format changes).",
 },
 "C07": {
  "technique": "property testing against an f64 reference trapezoid with running error bound, exact mirror metamorphism, must-accept oracle",
  "text": "Accepted profiles are compared at boundary and interior times with a reference trapezoid (and at and after completion with the requested end state, exactly) built from the inputs and the recovered integer boundaries (acceleration exact, velocity/position within 4x a derived f32 bound), start values must be exact, arrival at the goal within a tolerance proportional to f32 epsilon times the magnitudes involved, the mirrored profile must negate every output exactly with unchanged boundaries, and comfortably feasible moves must be accepted.",
  "note": "Limits and positions in the ranges the quantifier states; the tolerance terms for ns truncation and f32 seconds are written out in evidence.",
 },
 "C04": {
  "technique": "model-based property testing over generated input histories: f64 reference controller with running error bound, exact metamorphic relations, differential vs the crate's own stream assembly",
  "text": "Random gains/setpoints and event histories up to 64 events are run on the real PIDControllerStream; every output is compared with a textbook discrete PID evaluated in f64 under a derived f32 rounding bound (x4), outcomes and update() return values per event kind are asserted, timestamps shifted by a constant and inputs scaled by 2^k must reproduce the outputs exactly, and all-present histories are replayed through the controller assembled from Difference/Integral/Derivative/Product/Sum/NoneToValue/QuantityToFloat streams as in examples/pid.rs.",
  "note": "Strictly increasing timestamps, finite moderate values; the bound assumes round-to-nearest f32 arithmetic with the same data flow, factor 4 leaves room for re-association; measured head-room is reported.",
 },
 "C10": {
  "technique": "model-based property testing over generated histories with an f64 trapezoid/difference reference and running error bound; exhaustive unit panic table",
  "text": "Integral and derivative streams over all 49 input units and the three to-state converters are fed random histories with interleaved absent/error events; values are compared with trapezoid sums and difference quotients (applied once or twice) under a derived rounding bound, presence is asserted to start at exactly the 2nd/3rd sample of a run (exactly absent, not an error, before that), output time/unit are checked, timestamps shifted by a constant must reproduce outputs exactly, and each to-state converter must panic for each of the 48 wrong units and not for the right one.",
  "note": "Reset sets as in C05; what get() returns right after an error or absent event is C05's subject.",
 },
 "C11": {
  "technique": "model-based property testing over generated event/set/follow histories with an f64 reference and running error bound, plus deletion metamorphism for set(same)",
  "text": "CommandPID is driven with random histories of samples, absent/error inputs, set() calls of the same/different command and followed-command changes; every get() is compared with a reference that applies the kind's gains and integrates the control signal 0/1/2 times (presence for exactly the right samples, rounding bound x4, error reporting, update() return values); kind-only changes (same number, other kind; direct and followed) must restart the computation; removing set(current command) calls must not change any later output bitwise.",
  "note": "Where two clauses of the statement overlap (error then absent / set(different) before the next sample) Err and absent are both accepted.",
 },
 "C12": {
  "technique": "property testing over generated histories with repeated timestamps: reference weighted averages with running error bound, convexity invariant, variant differential, panic freedom",
  "text": "The f32 and Quantity variants of EWMAStream and MovingAverageStream are run on random histories (repeated timestamps, windows from 1 ns to hours, smoothing incl. 0 and 1); outputs are compared with the time-weighted window average and with prev*(1-L)+new*L under a derived bound, must lie within the range of contributing samples, return the first sample unchanged, agree between variants, and no update may panic.",
  "note": "powf is trusted to 2 ulp (std); timestamps non-decreasing; window > 0.",
 },
 "C03": {
  "technique": "exhaustive boundary-grid enumeration + random i64 timestamp pairs against max-of-contributors / newest-candidate oracles",
  "text": "All 49 pairs of the extreme/adjacent timestamp grid are crossed with all 64 Datum operator impls (four payload types, Datum/scalar right-hand sides, assign forms), Neg/Not, latest(), the three replace helpers in every slot/candidate state and the terminal reads; random pairs (arbitrary, equal, adjacent) the timestamp-combining streams through C02's reference with extreme timestamps, and device updates (inverter, gear train, axle, differential) through C08's driver, whose timestamp verdicts are reported here. Result time must be the maximum of the contributing operands (unchanged for scalars), selections must return a candidate with none strictly newer, replace helpers must replace iff strictly newer or empty and say so.",
  "note": "Ties in selections accept any newest candidate. Device-update values and constraints are C08's verdicts, only their timestamps count here.",
 },
 "C02": {
  "technique": "exhaustive enumeration of input categories x timestamp orderings against a table-driven reference model, plus metamorphic relations (proptest for values/arity)",
  "text": "Every assignment of {Err(1), Err(2), None, Some} to the inputs of each of the 16 combinators (plus NoneGetter, ConstantGetter) is crossed with every weak ordering of the input timestamps, both boolean values, clock ok/err and age <,=,> limit, for f32 and Quantity payloads; the real stream's outcome (category, error identity, timestamp, bit-exact value, unit) is compared with a reference written from the rustdoc; second read == first read; a third read after the inputs' values changed (same categories and timestamps) == a freshly built stream on those inputs (no read leaves anything behind); Sum2/Product2 == n-ary; De Morgan duality. Exhaustive over the finite category space, values sampled.",
  "note": "Inputs are scripted getters; If/IfElse/Expirer/NoneToValue consult secondary inputs lazily as documented; newest-of ties accept any newest candidate.",
 },
 "C01": {
  "technique": "exhaustive enumeration of the 49x49 unit grid x operator forms + random exponents/values (proptest) against independent exponent arithmetic and the raw f32 operators",
  "text": "All 2401 ordered pairs of grid units are crossed with all 52 operator forms (Quantity/Time/DimensionlessInteger binary and assign forms, bare-Unit forms, neg, abs, ==, orderings) and three value pairs; result unit, bit-exact value and panic/no-panic are compared with an independent model; named constants are checked against a parser of their names; conversions over all 49 units; plus random exponents up to |60| and arbitrary finite f32s. Exhaustive on the grid the quantifier names, sampled beyond it.",
  "note": "Build with dimension checking on. Units are only observable through equality with Unit::new(m, s). i64 operands of Time/DimensionlessInteger are converted with the same `as f32` cast for the value oracle (accuracy of that cast is C18's subject).",
 },
 "C14": {
  "technique": "property testing against closed-form kinematics with a running f32 error bound, exact operator/round-trip oracles, exhaustive unit x setter table",
  "text": "State::update is compared with v+a*dt and p+v*dt+a*dt^2/2 evaluated in f64 under a derived rounding bound (x4), dt=0 must be the identity; setters are checked for effect, zeroing and rejection over all 49 units; command construction/accessors/quantity round-trips and State/Command arithmetic are compared bitwise with the component-wise f32 operators; mixed-kind command +/- must panic. Exploration with exhaustive finite tables.",
  "note": "Finite inputs of moderate magnitude; dimension checking on; measured head-room (max |err|/bound) is reported in evidence.",
 },
 "C18": {
  "technique": "property testing with stratified i64 generators against i128 reference arithmetic, ulp-bounded conversion oracles and a differential oracle for mixed operators",
  "text": "19 integer operator forms are compared with exact i128 arithmetic on operands stratified over all magnitudes; Time/int->Quantity conversions are checked to 2/1 ulp and for monotonicity on neighbouring pairs, Quantity->Time to one f32 rounding + 1 ns, round trip to |t|*2^-22+1, rejection for the other 48 units exhaustively; every mixed Quantity/Time/DimensionlessInteger operator is compared bitwise (and panic-for-panic) with the Quantity operator on converted operands.",
  "note": "Operands are constructed so the exact result fits in i64 and divisors are non-zero; seconds below 9e9.",
 },
 "C05": {
  "technique": "metamorphic / history-invariant property testing over generated event histories (proptest + exhaustive short histories)",
  "text": "For each of the 14 stateful stream instantiations, all event-kind sequences up to length 5 and thousands of random histories up to 48 events are run on the real stream; after every event the no-stale-error invariant, get-purity (incl. a twin with a different get count, and a get() after the input changed without an update), reset equivalence against a freshly constructed stream fed the suffix, and absent-deletion invariance are asserted exactly (bitwise modulo NaN/-0). Exploration: sampled histories, exhaustive only for short ones.",
  "note": "Reset sets are taken from the rustdoc/source comments per stream; values are moderate finite f32; freeze is asserted only as far as the statement goes (windows after an absent/errored condition: purity only).",
 },
 "C09": {
  "technique": "model-based property testing: exhaustive matching x operation enumeration + random op histories vs a partner-array model",
  "text": "Every matching on 2..6 terminals x every connect/disconnect is executed on real terminals and compared with a partner-array model (links inferred from coded state reads), plus thousands of random connect/disconnect/set histories whose state, command and combined reads are compared with the model after every step; panics are caught and reported. Exploration level: the finite transition space named by the quantifier is covered completely, values and longer histories by sampling.",
  "note": "Links are private, so they are inferred from public reads (own state 2^i); assumes terminals are not moved while linked (the API's lifetime hole is C16's subject).",
 },
}
