#!/usr/bin/env bash
# tools/mutate.sh <patch> [ID ...] : apply a patch to /repo, run the quick checks of the given ids
# (default: the id prefix of the patch name), always restore /repo. Prints CAUGHT / MISSED per id.
set -u
patch="$(readlink -f "$1")"; shift
name="$(basename "$patch" .patch)"
ids=("$@"); [ ${#ids[@]} -eq 0 ] && ids=("${name%%-*}")
cd /verif
if [ -n "$(git -C /repo status --porcelain --untracked-files=no)" ]; then echo "/repo is dirty, refusing"; exit 2; fi
restore() { git -C /repo checkout -- . ; }
trap restore EXIT
git -C /repo apply "$patch" || { echo "patch does not apply: $patch"; exit 2; }
if [ "${MUTANT_BASELINE:-0}" = 1 ]; then
  (cd /repo && cargo test --workspace --no-fail-fast --offline 2>&1 | grep -E '^test result' | awk '{p+=$4; f+=$6} END {print "baseline: passed=" p " failed=" f}')
fi
for id in "${ids[@]}"; do
  out="$(./run quick "$id" 2>&1)"; rc=$?
  if [ $rc -eq 1 ]; then echo "CAUGHT $name by $id: $(echo "$out" | grep -m1 'violation detail' | cut -c1-220)";
  elif [ $rc -eq 0 ]; then echo "MISSED $name by $id";
  else echo "ERROR($rc) $name by $id: $(echo "$out" | tail -n 3)"; fi
done
