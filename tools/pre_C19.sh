#!/usr/bin/env bash
# builds cfgrun once per rrtk feature configuration (in parallel), against /repo's working tree
set -u
R="${VERIF_ROOT:-/verif}"
. "$R/tools/cfg_list.sh"
cd "$R/cfgrun" || exit 2
[ -f Cargo.lock ] || { echo "cfgrun/Cargo.lock missing"; exit 2; }
pids=()
for c in "${CFGS[@]}"; do
  IFS='|' read -r name feats prof chk fam <<<"$c"
  ( cargo build --offline --profile "$prof" --no-default-features --features "$feats" --target-dir "$R/work/target-cfg/$name" >"$R/work/build-cfg-$name.log" 2>&1 ) &
  pids+=($!)
done
rc=0
i=0
for p in "${pids[@]}"; do
  if ! wait "$p"; then
    IFS='|' read -r name rest <<<"${CFGS[$i]}"
    echo "cfgrun build failed for configuration $name"; tail -n 25 "$R/work/build-cfg-$name.log"; rc=2
  fi
  i=$((i+1))
done
exit $rc
