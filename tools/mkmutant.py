#!/usr/bin/env python3
"""tools/mkmutant.py <ID-name> <file relative to /repo> <old> <new> [occurrence]
Creates /verif/mutants/<ID-name>.patch by replacing the n-th (default 1st, 1-based; 0 = all) occurrence."""
import sys, subprocess, os
name, rel, old, new = sys.argv[1:5]
occ = int(sys.argv[5]) if len(sys.argv) > 5 else 1
path = os.path.join("/repo", rel)
src = open(path).read()
assert old in src, "pattern not found"
if occ == 0:
    out = src.replace(old, new)
else:
    idx = -1
    for _ in range(occ):
        idx = src.index(old, idx + 1)
    out = src[:idx] + new + src[idx + len(old):]
open(path, "w").write(out)
diff = subprocess.run(["git", "-C", "/repo", "diff"], capture_output=True, text=True).stdout
subprocess.run(["git", "-C", "/repo", "checkout", "--", "."], check=True)
assert diff.strip(), "empty diff"
open(f"/verif/mutants/{name}.patch", "w").write(diff)
print("wrote", f"/verif/mutants/{name}.patch")
