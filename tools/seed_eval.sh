#!/usr/bin/env bash
# tools/seed_eval.sh <property-id> <src dir with patch.diff demo.rs notes.md> [name]
# 1. confirms in a scratch worktree: baseline suite passes with the patch, demo fails with it and passes without
# 2. applies the patch to /repo, runs EVERY quick check (and the property's own), restores /repo
# 3. stores the change under /verif/seeded/<name>/ with meta.json
set -u
id="$1"; src="$2"; name="${3:-$id-$(basename "$src")}"; source_txt="${4:-independent sub-agent given only the property text and a scratch worktree}"
V=/verif; W=/tmp/seedwt_$$
[ -f "$src/patch.diff" ] && [ -f "$src/demo.rs" ] || { echo "missing patch.diff/demo.rs in $src"; exit 2; }
git -C /repo worktree add -q --detach "$W" HEAD || exit 2
cleanup() { git -C /repo worktree remove --force "$W" 2>/dev/null; git -C /repo checkout -- . 2>/dev/null; }
trap cleanup EXIT
feat="--features devices"
# a demonstration may need another feature configuration (C17/C19 seeds): taken from the first
# `--no-default-features --features <list>` mentioned in the top 25 lines of demo.rs
demo_feat="$feat"
alt="$(head -n 25 "$src/demo.rs" | grep -m1 -o -- '--no-default-features --features [A-Za-z0-9_,]*')"
[ -n "$alt" ] && demo_feat="$alt"
res() { awk '/^test result/ {p+=$4; f+=$6} END {print "passed=" p+0 " failed=" f+0}'; }
cp "$src/demo.rs" "$W/tests/seed_demo.rs"
demo_clean="$(cd "$W" && cargo test --offline $demo_feat --test seed_demo 2>&1 | res)"
git -C "$W" apply "$src/patch.diff" || { echo "patch does not apply"; exit 2; }
demo_patched="$(cd "$W" && cargo test --offline $demo_feat --test seed_demo 2>&1 | res)"
echo "demo feature flags:    $demo_feat"
rm "$W/tests/seed_demo.rs"
suite_default="$(cd "$W" && cargo test --workspace --no-fail-fast --offline 2>&1 | res)"
suite_devices="$(cd "$W" && cargo test --offline --no-fail-fast $feat 2>&1 | res)"
echo "demo on clean tree:   $demo_clean"
echo "demo with patch:      $demo_patched"
echo "suite (default) with patch: $suite_default"
echo "suite (devices) with patch: $suite_devices"
git -C /repo worktree remove --force "$W"
# run our checks against it
[ -z "$(git -C /repo status --porcelain --untracked-files=no)" ] || { echo "/repo dirty"; exit 2; }
git -C /repo apply "$src/patch.diff" || exit 2
caught=""
checks="$(python3 -c "import json;print(' '.join(c['property_id'] for c in json.load(open('$V/MANIFEST.json'))['checks']))")"
# SEED_CHECKS=own: only the check of the seed's own property (fast); default: every check (the "caught by" matrix)
[ "${SEED_CHECKS:-all}" = own ] && checks="$id"
for c in $checks; do
  out="$(cd $V && ./run quick "$c" 2>&1)"; rc=$?
  if [ $rc -eq 1 ]; then caught="$caught $c"; echo "  $c CAUGHT: $(echo "$out" | grep -m1 'violation detail' | cut -c1-200)";
  elif [ $rc -ne 0 ]; then echo "  $c rc=$rc: $(echo "$out" | tail -n 2 | cut -c1-200)"; fi
done
git -C /repo checkout -- .
echo "caught by:${caught:- NONE}"
mkdir -p "$V/seeded/$name"
cp "$src/patch.diff" "$src/demo.rs" "$V/seeded/$name/"; [ -f "$src/notes.md" ] && cp "$src/notes.md" "$V/seeded/$name/"
python3 - "$V/seeded/$name/meta.json" "$id" "$demo_clean" "$demo_patched" "$suite_default" "$suite_devices" "$caught" "$source_txt" <<'PY'
import json,sys
path,pid,dc,dp,sd,sv,caught,src=sys.argv[1:9]
json.dump({"property":pid,"source":src,
 "confirmed":{"demo_on_clean_tree":dc,"demo_with_patch":dp,"baseline_suite_default_features_with_patch":sd,"suite_with_devices_feature_with_patch":sv},
 "commands":["cargo test --offline --features devices --test seed_demo (clean worktree, then with patch applied)","cargo test --workspace --no-fail-fast --offline (with patch)","cargo test --offline --no-fail-fast --features devices (with patch)","git -C /repo apply patch.diff; ./run quick <every id>; git -C /repo checkout -- ."],
 "caught_by_quick_checks":caught.split(),"needs_to_manifest":"see notes.md"},open(path,"w"),indent=1)
PY
[ -n "${SEED_NO_REFRESH:-}" ] || ( cd $V && tools/all.sh quick >/dev/null 2>&1 ) # refresh evidence on the clean tree
