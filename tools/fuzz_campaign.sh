#!/usr/bin/env bash
# tools/fuzz_campaign.sh <ID> [runs_per_worker] [workers]
# Engine E2: builds the libFuzzer target of a property, seeds a fresh corpus (generated scenarios + saved
# regressions), runs <workers> independent libFuzzer processes with seeds derived from VERIF_SEED, and
# summarises: exit 0 = no violation, 1 = VIOLATION (line printed, replay file written by the target),
# 2 = inconclusive (timeout / OOM / build problem). Statistics go to work/fuzz-<ID>.json.
set -u
R="${VERIF_ROOT:-/verif}"
id="$1"; runs="${2:-25000}"; workers="${3:-8}"
t="$(echo "$id" | tr 'A-Z' 'a-z')"
seed="${VERIF_SEED:-20261002}"
[ -f "$R/fuzz/fuzz_targets/$t.rs" ] || { echo "no fuzz target for $id"; exit 0; }
export VERIF_ROOT="$R" CARGO_NET_OFFLINE=true
tdir="$R/work/target-fuzz"
if ! cargo +nightly fuzz build --fuzz-dir "$R/fuzz" --target-dir "$tdir" "$t" >"$R/work/build-fuzz-$t.log" 2>&1; then
  echo "fuzz build failed (see work/build-fuzz-$t.log)"; tail -n 20 "$R/work/build-fuzz-$t.log"; exit 2
fi
bin="$tdir/x86_64-unknown-linux-gnu/release/$t"
corpus="$R/work/fuzz-corpus/$t"; art="$R/work/fuzz-artifacts/$t/"; logs="$R/work/fuzz-logs/$t"
rm -rf "$corpus" "$art" "$logs"; mkdir -p "$corpus" "$art" "$logs"
"$R/work/target/release/rrtk-verif" "corpus:$id" "$corpus" || exit 2
start=$(date +%s)
pids=()
for i in $(seq 1 "$workers"); do
  ( "$bin" -seed=$(( (seed + i * 7919) % 2000000000 + 1 )) -runs="$runs" -max_len=65536 -timeout=60 -rss_limit_mb=4096 -print_final_stats=1 -artifact_prefix="$art" "$corpus" >"$logs/w$i.log" 2>&1 ) &
  pids+=($!)
done
for p in "${pids[@]}"; do wait "$p"; done
secs=$(( $(date +%s) - start ))
viol="$(grep -h '^VIOLATION property=' "$logs"/w*.log | sort -u)"
if [ -n "$viol" ]; then
  grep -h '^violation detail' "$logs"/w*.log | sort -u | head -5
  echo "$viol" | head -5
  exit 1
fi
if grep -qE 'ERROR: libFuzzer: (timeout|out-of-memory)|==ERROR: AddressSanitizer' "$logs"/w*.log; then
  if grep -q '==ERROR: AddressSanitizer' "$logs"/w*.log; then
    f="$R/work/replays/$id-asan-$(date +%s).json"; mkdir -p "$R/work/replays"
    printf '{"property":"%s","key":"%s/address-sanitizer","message":"AddressSanitizer error while running the property check on safe rrtk API (see work/fuzz-logs/%s)","scenario":null}\n' "$id" "$id" "$t" >"$f"
    grep -h -A6 '==ERROR: AddressSanitizer' "$logs"/w*.log | head -12
    echo "VIOLATION property=$id replay=$f"; exit 1
  fi
  echo "INCONCLUSIVE: libFuzzer timeout / out-of-memory in the $id campaign"; grep -hE 'ERROR: libFuzzer' "$logs"/w*.log | sort | uniq -c; exit 2
fi
if grep -q 'deadly signal' "$logs"/w*.log; then
  echo "INCONCLUSIVE: a fuzz worker crashed without reporting a violation"; grep -h -B3 'deadly signal' "$logs"/w*.log | head -12; exit 2
fi
execs=$(grep -h 'stat::number_of_executed_units' "$logs"/w*.log | awk '{s+=$2} END {print s+0}')
cov=$(grep -hE '^#[0-9]+\s+DONE' "$logs"/w*.log | sed -E 's/.*cov: ([0-9]+).*/\1/' | sort -n | tail -1)
ft=$(grep -hE '^#[0-9]+\s+DONE' "$logs"/w*.log | sed -E 's/.*ft: ([0-9]+).*/\1/' | sort -n | tail -1)
units=$(ls "$corpus" | wc -l)
printf '{"engine":"libFuzzer (cargo-fuzz) with a structure-aware JSON mutator over the property scenario","workers":%d,"runs_per_worker":%d,"executions":%d,"edge_coverage":%d,"features":%d,"corpus_units":%d,"seconds":%d,"base_seed":%d}\n' "$workers" "$runs" "${execs:-0}" "${cov:-0}" "${ft:-0}" "$units" "$secs" "$seed" >"$R/work/fuzz-$id.json"
echo "fuzz campaign $id: executions=${execs:-0} cov=${cov:-0} ft=${ft:-0} corpus=$units seconds=$secs"
exit 0
