#!/usr/bin/env bash
# extra build steps of ./run setup: everything a quick check needs besides the main binary
set -u
R="${VERIF_ROOT:-/verif}"
"$R/tools/pre_C17.sh" setup || exit 2
"$R/tools/pre_C19.sh" setup || exit 2
exit 0
