#!/usr/bin/env python3
"""Regenerates /verif/MANIFEST.json from the per-property table below.
A property is claimed once its id is in IMPLEMENTED; every other id is listed under not_applicable
with the reason it is not claimed (yet)."""
import json, os, sys
ROOT = os.path.dirname(os.path.dirname(os.path.abspath(__file__)))
sys.path.insert(0, os.path.dirname(os.path.abspath(__file__)))
from manifest_table import TABLE, IMPLEMENTED, HOOK_COMMITS

props = [json.loads(l) for l in open(os.path.join(ROOT, "properties.jsonl"))]
checks, na = [], []
for p in props:
    pid = p["id"]
    t = TABLE.get(pid)
    if pid in IMPLEMENTED and t:
        checks.append({
            "property_id": pid,
            "quick_cmd": f"./run quick {pid}",
            "thorough_cmd": f"./run thorough {pid}",
            "evidence_file": f"/verif/evidence/{pid}.json",
            "replay_cmd_template": "./run replay {path}",
            "engine": t.get("engine", "rrtk-verif"),
            "level_claimed": {"category": "exploration", "text": t["text"], "design_ref": f"DESIGN.md section 4, {pid}"},
            "level_note": t["note"],
            "technique": t["technique"],
        })
    else:
        na.append({"property_id": pid, "reason": (t or {}).get("na_reason", "check not built yet in this session; planned per DESIGN.md section 4 (property-based testing applies)")})
manifest = {
    "version": 1,
    "setup_cmd": "./run setup",
    "hooks": {
        "guard": "--cfg rrtk_verif",
        "enable": "harness/.cargo/config.toml sets build.rustflags = [\"--cfg\", \"rrtk_verif\"] for every harness build (dedicated target dir /verif/work/target); the only hook is the 0x7F poison-fill of rrtk's four MaybeUninit scratch arrays (C16)",
        "baseline_off_cmd": "cd /repo && cargo test --workspace --no-fail-fast --offline",
        "source_commits": HOOK_COMMITS,
        "add_only": True,
    },
    "engines": [
        {"name": "rrtk-verif", "path": "harness/checks", "serves_properties": sorted(IMPLEMENTED), "kind_free_text": "proptest TestRunner driven from a binary (fixed seeds, sharded), exhaustive enumerators for the finite sub-spaces the quantifiers name, explicit reference-model / metamorphic / differential oracles, shrinking to JSON replay files"},
    ],
    "checks": checks,
    "not_applicable": na,
    "notes": "All checks rebuild the harness against /repo's working tree (cargo path dependency) before running. Exit 2 = infrastructure problem or watchdog (inconclusive), never a violation. Known/fixed findings: known_findings.json.",
}
json.dump(manifest, open(os.path.join(ROOT, "MANIFEST.json"), "w"), indent=1)
print("claimed:", [c["property_id"] for c in checks], "not claimed:", [n["property_id"] for n in na])
