#!/usr/bin/env bash
# tools/all.sh [quick|thorough] : run every claimed check, print a one-line summary each
tier="${1:-quick}"
cd "$(dirname "$(readlink -f "$0")")/.."
for id in $(python3 -c "import json;print(' '.join(c['property_id'] for c in json.load(open('MANIFEST.json'))['checks']))"); do
  s=$(date +%s.%N)
  out="$(./run "$tier" "$id" 2>&1)"; rc=$?
  e=$(date +%s.%N)
  printf "%s rc=%d %.1fs %s\n" "$id" "$rc" "$(echo "$e - $s" | bc)" "$(echo "$out" | grep -E "^$id|VIOLATION|KNOWN" | head -3 | tr '\n' ' ' | cut -c1-200)"
done
