#!/opt/veriftools/pyvenv/bin/python
"""Validate MANIFEST.json and every evidence file against the schemas."""
import json, glob, sys, jsonschema
ok = True
def v(path, schema):
    global ok
    try:
        jsonschema.validate(json.load(open(path)), json.load(open(schema)))
    except Exception as e:
        ok = False
        print("INVALID", path, str(e)[:300])
v("/verif/MANIFEST.json", "/root/.vp/MANIFEST.schema.json")
m = json.load(open("/verif/MANIFEST.json"))
for c in m["checks"]:
    v(c["evidence_file"], "/root/.vp/EVIDENCE.schema.json")
print("all valid" if ok else "problems found")
sys.exit(0 if ok else 1)
