# name|features|profile|checked(1/0)|powf family
CFGS=(
"std_dbg|std,dim_check_debug|relassert|1|std"
"std_rel|std,dim_check_debug|release|0|std"
"std_relchk|std,dim_check_release|release|1|std"
"std_nochk|std|relassert|0|std"
"libm|alloc,libm|release|0|libm"
"libm_chk|alloc,libm,dim_check_release|release|1|libm"
"micro|alloc,micromath|release|0|micromath"
"micro_chk|alloc,micromath,dim_check_release|release|1|micromath"
"std_libm_micro|std,libm,micromath|release|0|std"
"libm_micro|alloc,libm,micromath|release|0|libm"
)
