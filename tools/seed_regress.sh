#!/usr/bin/env bash
# tools/seed_regress.sh [dir ...]: apply each seeded change to /repo, run the quick check of ITS OWN property, restore.
# Prints CAUGHT / MISSED / ERROR per seed; exit 1 if any seed is not caught by its own property's check.
set -u
cd /verif
[ -z "$(git -C /repo status --porcelain --untracked-files=no)" ] || { echo "/repo is dirty, refusing"; exit 2; }
trap 'git -C /repo checkout -- .' EXIT
dirs=("$@"); [ ${#dirs[@]} -eq 0 ] && dirs=(seeded/*)
bad=0
for d in "${dirs[@]}"; do
  id="$(python3 -c "import json;print(json.load(open('$d/meta.json'))['property'])")"
  pf="$d/patch.diff"; [ -f "$d/patch_rebased.diff" ] && pf="$d/patch_rebased.diff"; git -C /repo apply "$(readlink -f "$pf")" || { echo "ERROR $(basename "$d"): patch does not apply"; bad=1; continue; }
  out="$(./run quick "$id" 2>&1)"; rc=$?
  git -C /repo checkout -- .
  case $rc in
    1) echo "CAUGHT $(basename "$d") by $id: $(echo "$out" | grep -m1 'violation detail' | cut -c19-140)";;
    0) echo "MISSED $(basename "$d") by $id"; bad=1;;
    *) echo "ERROR($rc) $(basename "$d") by $id: $(echo "$out" | tail -n 2 | cut -c1-200)"; bad=1;;
  esac
done
exit $bad
