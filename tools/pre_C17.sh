#!/usr/bin/env bash
# builds the downstream crate twice (with and without cargo features named alloc/std) against /repo
set -u
R="${VERIF_ROOT:-/verif}"
cd "$R/harness" || exit 2
cargo build --release -p downstream --features std --target-dir "$R/work/target-ds-feat" >"$R/work/build-ds-feat.log" 2>&1 || { echo "downstream (features) build failed"; tail -n 30 "$R/work/build-ds-feat.log"; exit 2; }
cargo build --release -p downstream --target-dir "$R/work/target-ds-nofeat" >"$R/work/build-ds-nofeat.log" 2>&1 || { echo "downstream (no features) build failed"; tail -n 30 "$R/work/build-ds-nofeat.log"; exit 2; }
# (the ds_variants crate - the same interpreter against an alloc-only and a feature-less rrtk - is built by the check itself,
#  which has to tell a to_dyn! that does not compile there from an unrelated build problem)
exit 0
