#!/usr/bin/env bash
# builds the downstream crate twice (with and without cargo features named alloc/std) against /repo
set -u
R="${VERIF_ROOT:-/verif}"
cd "$R/harness" || exit 2
cargo build --release -p downstream --features std --target-dir "$R/work/target-ds-feat" >"$R/work/build-ds-feat.log" 2>&1 || { echo "downstream (features) build failed"; tail -n 30 "$R/work/build-ds-feat.log"; exit 2; }
cargo build --release -p downstream --target-dir "$R/work/target-ds-nofeat" >"$R/work/build-ds-nofeat.log" 2>&1 || { echo "downstream (no features) build failed"; tail -n 30 "$R/work/build-ds-nofeat.log"; exit 2; }
# ... and the same interpreter against an alloc-only and a feature-less rrtk (own workspace: no feature unification)
cd "$R/ds_variants" || exit 2
[ -f Cargo.lock ] || cp "$R/cfgrun/Cargo.lock" Cargo.lock
CARGO_NET_OFFLINE=true cargo build --offline --release --features interp_alloc --target-dir "$R/work/target-ds-alloc" >"$R/work/build-ds-alloc.log" 2>&1 || { echo "ds_variant (alloc-only rrtk) build failed"; tail -n 30 "$R/work/build-ds-alloc.log"; exit 2; }
CARGO_NET_OFFLINE=true cargo build --offline --release --target-dir "$R/work/target-ds-bare" >"$R/work/build-ds-bare.log" 2>&1 || { echo "ds_variant (feature-less rrtk) build failed"; tail -n 30 "$R/work/build-ds-bare.log"; exit 2; }
exit 0
