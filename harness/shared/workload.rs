//! C19 workload: "program -> canonical trace" interpreters over the whole public API, compiled
//! verbatim (via #[path]) into the main harness and into the `cfgrun` binary that is built once per
//! feature configuration. Plain data in, tokens out. Only API that exists in *every* configuration
//! is used here (no Unit equality, no try_from that needs dimension checking).
use super::devs::{make_dev, read_command, read_data, read_state, set_command, set_state, st, Arena, DevSpec, Term};
use super::sutcore::*;
use rrtk::streams::converters::*;
use rrtk::streams::flow::*;
use rrtk::streams::logic::*;
use rrtk::streams::math::*;
use rrtk::streams::*;
use rrtk::*;
use serde::{Deserialize, Serialize};
use std::cell::Cell;

#[derive(Clone, Copy, Debug, Serialize, Deserialize, PartialEq)]
pub enum QTok {
    PushQ(f32, i8, i8),
    PushT(i64),
    PushD(i64),
    Add,
    Sub,
    Mul,
    Div,
    AddAssign,
    SubAssign,
    MulAssign,
    DivAssign,
    Neg,
    Abs,
    Lt,
    Eq,
    Le,
    Gt,
    Ge,
    Ne,
    /// Quantity -> Time / DimensionlessInteger via try_from
    ToTime,
    ToInt,
    /// Time / DimensionlessInteger -> Quantity via From
    ToQuantity,
    Dup,
    Swap,
}
#[derive(Clone, Copy, Debug, Serialize, Deserialize, PartialEq)]
pub enum StOp {
    Update(i64),
    /// setter k (0 position, 1 velocity, 2 acceleration) with a quantity (value, unit)
    Set(u8, f32, i8, i8),
    SetRaw(u8, f32),
    Neg,
    Add([f32; 3]),
    Sub([f32; 3]),
    Mul(f32),
    Div(f32),
    ToCommand,
    /// command arithmetic on Command::from(state): 0 +same 1 -same 2 *f 3 /f 4 neg
    CommandOp(u8, f32),
    GetValue(u8),
}
#[derive(Clone, Copy, Debug, Serialize, Deserialize, PartialEq)]
pub struct NIn {
    /// 0 Err(1), 1 Err(2), 2 None, 3 Some
    pub cat: u8,
    pub t: i64,
    pub v: f32,
    pub b: bool,
}
#[derive(Clone, Copy, Debug, Serialize, Deserialize, PartialEq)]
pub struct DFeed {
    pub own_state: Option<[f32; 3]>,
    pub ext_state: Option<[f32; 3]>,
    pub own_cmd: Option<(u8, f32)>,
    pub ext_cmd: Option<(u8, f32)>,
}
#[derive(Clone, Debug, Serialize, Deserialize, PartialEq)]
pub enum Step {
    Quantity(Vec<QTok>),
    StateOps { s: [f32; 3], ops: Vec<StOp> },
    Profile { start: [f32; 3], end: [f32; 3], max_vel: f32, max_acc: f32, times: Vec<i64> },
    Stream { kind: Kind, params: Params, t0: i64, events: Vec<Ev>, cond: Vec<CondEv> },
    Net { ins: [NIn; 3], bools: [NIn; 2], clock: Option<i64>, limit: i64, none_value: f32 },
    Device { spec: DevSpec, linked: Vec<bool>, rounds: Vec<Vec<DFeed>> },
    DatumOps { t1: i64, t2: i64, a: f32, b: f32 },
    /// raw (base, exponent) pairs through the exponent stream: zero / negative / unit bases, zero / negative / integral /
    /// huge exponents - the power function's special cases, where a replacement library or a shortcut may differ grossly
    Pow { pairs: Vec<[f32; 2]> },
}
pub type Program = Vec<Step>;

pub fn fb(x: f32) -> String {
    if x.is_nan() {
        "nan".to_string()
    } else if x == 0.0 {
        "00000000".to_string()
    } else {
        format!("{:08x}", x.to_bits())
    }
}
/// powf-derived value: compared per configuration, not across configurations
pub fn pfb(x: f32) -> String {
    format!("~{}", fb(x))
}
fn state_toks(s: State, out: &mut Vec<String>) {
    out.push(fb(s.position));
    out.push(fb(s.velocity));
    out.push(fb(s.acceleration));
}
fn cmd_toks(c: Command, out: &mut Vec<String>) {
    out.push(match PositionDerivative::from(c) {
        PositionDerivative::Position => "P",
        PositionDerivative::Velocity => "V",
        PositionDerivative::Acceleration => "A",
    }
    .to_string());
    out.push(fb(f32::from(c)));
}
fn err_tok<E2: core::fmt::Debug + Copy>(e: Error<E2>) -> String {
    match e {
        Error::FromNone => "E:none".to_string(),
        Error::Other(x) => format!("E:{:?}", x),
        _ => "E:?".to_string(),
    }
}
fn out_toks<T>(o: Output<T, E>, f: impl Fn(&T, &mut Vec<String>), out: &mut Vec<String>) {
    match o {
        Err(e) => out.push(err_tok(e)),
        Ok(None) => out.push("none".to_string()),
        Ok(Some(d)) => {
            out.push(format!("@{}", d.time.0));
            f(&d.value, out);
        }
    }
}

// ---------------------------------------------------------------------------------------------
// quantity stack machine
// ---------------------------------------------------------------------------------------------
#[derive(Clone, Copy, Debug)]
pub enum V {
    Q(Quantity),
    T(Time),
    D(DimensionlessInteger),
}
fn bin(a: V, b: V, op: QTok) -> Option<V> {
    use QTok::*;
    use V::*;
    macro_rules! asg {
        ($x:expr, $y:expr, $o:tt) => {{
            let mut x = $x;
            x $o $y;
            x
        }};
    }
    Some(match (a, b, op) {
        (Q(x), Q(y), Add) => Q(x + y),
        (Q(x), Q(y), Sub) => Q(x - y),
        (Q(x), Q(y), Mul) => Q(x * y),
        (Q(x), Q(y), Div) => Q(x / y),
        (Q(x), Q(y), AddAssign) => Q(asg!(x, y, +=)),
        (Q(x), Q(y), SubAssign) => Q(asg!(x, y, -=)),
        (Q(x), Q(y), MulAssign) => Q(asg!(x, y, *=)),
        (Q(x), Q(y), DivAssign) => Q(asg!(x, y, /=)),
        (Q(x), T(y), Add) => Q(x + y),
        (Q(x), T(y), Sub) => Q(x - y),
        (Q(x), T(y), Mul) => Q(x * y),
        (Q(x), T(y), Div) => Q(x / y),
        (Q(x), T(y), AddAssign) => Q(asg!(x, y, +=)),
        (Q(x), T(y), SubAssign) => Q(asg!(x, y, -=)),
        (Q(x), T(y), MulAssign) => Q(asg!(x, y, *=)),
        (Q(x), T(y), DivAssign) => Q(asg!(x, y, /=)),
        (Q(x), D(y), Add) => Q(x + y),
        (Q(x), D(y), Sub) => Q(x - y),
        (Q(x), D(y), Mul) => Q(x * y),
        (Q(x), D(y), Div) => Q(x / y),
        (Q(x), D(y), AddAssign) => Q(asg!(x, y, +=)),
        (Q(x), D(y), SubAssign) => Q(asg!(x, y, -=)),
        (Q(x), D(y), MulAssign) => Q(asg!(x, y, *=)),
        (Q(x), D(y), DivAssign) => Q(asg!(x, y, /=)),
        (T(x), Q(y), Add) => Q(x + y),
        (T(x), Q(y), Sub) => Q(x - y),
        (T(x), Q(y), Mul) => Q(x * y),
        (T(x), Q(y), Div) => Q(x / y),
        (D(x), Q(y), Add) => Q(x + y),
        (D(x), Q(y), Sub) => Q(x - y),
        (D(x), Q(y), Mul) => Q(x * y),
        (D(x), Q(y), Div) => Q(x / y),
        (T(x), T(y), Add) => T(x + y),
        (T(x), T(y), Sub) => T(x - y),
        (T(x), T(y), AddAssign) => T(asg!(x, y, +=)),
        (T(x), T(y), SubAssign) => T(asg!(x, y, -=)),
        (T(x), T(y), Mul) => Q(x * y),
        (T(x), T(y), Div) => Q(x / y),
        (T(x), D(y), Mul) => T(x * y),
        (T(x), D(y), Div) => T(x / y),
        (T(x), D(y), MulAssign) => T(asg!(x, y, *=)),
        (T(x), D(y), DivAssign) => T(asg!(x, y, /=)),
        (D(x), T(y), Mul) => T(x * y),
        (D(x), T(y), Div) => Q(x / y),
        (D(x), D(y), Add) => D(x + y),
        (D(x), D(y), Sub) => D(x - y),
        (D(x), D(y), Mul) => D(x * y),
        (D(x), D(y), Div) => D(x / y),
        (D(x), D(y), AddAssign) => D(asg!(x, y, +=)),
        (D(x), D(y), SubAssign) => D(asg!(x, y, -=)),
        (D(x), D(y), MulAssign) => D(asg!(x, y, *=)),
        (D(x), D(y), DivAssign) => D(asg!(x, y, /=)),
        _ => return None,
    })
}
/// which (lhs, rhs, op) combinations exist, as type codes 0 Q, 1 T, 2 D -> result type code
pub fn bin_result_type(a: u8, b: u8, op: QTok) -> Option<u8> {
    let mk = |t: u8| match t {
        0 => V::Q(Quantity::dimensionless(1.0)),
        1 => V::T(Time(2)),
        _ => V::D(DimensionlessInteger(3)),
    };
    // additive probes with mismatching units would panic in a checked build: decide by table instead
    use QTok::*;
    let additive = matches!(op, Add | Sub | AddAssign | SubAssign);
    let assign = matches!(op, AddAssign | SubAssign | MulAssign | DivAssign);
    match (a, b) {
        (0, _) => Some(0),
        (1, 0) | (2, 0) => if assign { None } else { Some(0) },
        (1, 1) => if additive { Some(1) } else if assign { None } else { Some(0) },
        (1, 2) => if additive { None } else { Some(1) },
        (2, 1) => if additive || assign { None } else if matches!(op, Mul) { Some(1) } else { Some(0) },
        (2, 2) => Some(2),
        _ => {
            let _ = mk;
            None
        }
    }
}
macro_rules! named_units {
    ($($n:ident),* $(,)?) => { [$((stringify!($n), rrtk::$n)),*] };
}
pub fn named_constants() -> [(&'static str, Unit); 49] {
    named_units![
        INVERSE_MILLIMETER_CUBED_SECOND_CUBED, INVERSE_MILLIMETER_CUBED_SECOND_SQUARED, INVERSE_MILLIMETER_CUBED_SECOND, INVERSE_MILLIMETER_CUBED,
        SECOND_PER_MILLIMETER_CUBED, SECOND_SQUARED_PER_MILLIMETER_CUBED, SECOND_CUBED_PER_MILLIMETER_CUBED,
        INVERSE_MILLIMETER_SQUARED_SECOND_CUBED, INVERSE_MILLIMETER_SQUARED_SECOND_SQUARED, INVERSE_MILLIMETER_SQUARED_SECOND, INVERSE_MILLIMETER_SQUARED,
        SECOND_PER_MILLIMETER_SQUARED, SECOND_SQUARED_PER_MILLIMETER_SQUARED, SECOND_CUBED_PER_MILLIMETER_SQUARED,
        INVERSE_MILLIMETER_SECOND_CUBED, INVERSE_MILLIMETER_SECOND_SQUARED, INVERSE_MILLIMETER_SECOND, INVERSE_MILLIMETER,
        SECOND_PER_MILLIMETER, SECOND_SQUARED_PER_MILLIMETER, SECOND_CUBED_PER_MILLIMETER,
        INVERSE_SECOND_CUBED, INVERSE_SECOND_SQUARED, INVERSE_SECOND, DIMENSIONLESS, SECOND, SECOND_SQUARED, SECOND_CUBED,
        MILLIMETER_PER_SECOND_CUBED, MILLIMETER_PER_SECOND_SQUARED, MILLIMETER_PER_SECOND, MILLIMETER, MILLIMETER_SECOND, MILLIMETER_SECOND_SQUARED, MILLIMETER_SECOND_CUBED,
        MILLIMETER_SQUARED_PER_SECOND_CUBED, MILLIMETER_SQUARED_PER_SECOND_SQUARED, MILLIMETER_SQUARED_PER_SECOND, MILLIMETER_SQUARED, MILLIMETER_SQUARED_SECOND, MILLIMETER_SQUARED_SECOND_SQUARED, MILLIMETER_SQUARED_SECOND_CUBED,
        MILLIMETER_CUBED_PER_SECOND_CUBED, MILLIMETER_CUBED_PER_SECOND_SQUARED, MILLIMETER_CUBED_PER_SECOND, MILLIMETER_CUBED, MILLIMETER_CUBED_SECOND, MILLIMETER_CUBED_SECOND_SQUARED, MILLIMETER_CUBED_SECOND_CUBED,
    ]
}
/// (copy of the C01 table, so that every configuration crate has it) The exponents a constant's *name* states: `[INVERSE_] unit [_SQUARED|_CUBED] ... [PER_ ...]`.
pub fn exponents_in_name(name: &str) -> (i8, i8) {
    if name == "DIMENSIONLESS" {
        return (0, 0);
    }
    let toks: Vec<&str> = name.split('_').collect();
    let (mut mm, mut s) = (0i8, 0i8);
    let mut sign = 1i8;
    let mut i = 0;
    while i < toks.len() {
        match toks[i] {
            "INVERSE" | "PER" => sign = -1,
            u @ ("MILLIMETER" | "SECOND") => {
                let mut p = 1;
                if i + 1 < toks.len() {
                    if toks[i + 1] == "SQUARED" {
                        p = 2;
                        i += 1;
                    } else if toks[i + 1] == "CUBED" {
                        p = 3;
                        i += 1;
                    }
                }
                if u == "MILLIMETER" {
                    mm += sign * p;
                } else {
                    s += sign * p;
                }
            }
            other => panic!("unparsable token {} in constant name {}", other, name),
        }
        i += 1;
    }
    (mm, s)
}

/// The named unit constants as a consumer uses them: compared (the way the crate's own checks compare) with the unit their
/// name states. Without dimension checking nothing is compared, so every configuration prints the same on a correct tree.
pub fn run_constants(out: &mut Vec<String>) {
    for (name, unit) in named_constants().iter() {
        let (mm, s) = exponents_in_name(name);
        out.push(if unit.eq_assume_true(&Unit::new(mm, s)) { "k-ok".to_string() } else { format!("k-mismatch:{}", name) });
    }
}
pub fn run_quantity(prog: &[QTok], out: &mut Vec<String>) {
    let mut st: Vec<V> = Vec::new();
    for tok in prog {
        match *tok {
            QTok::PushQ(v, m, s) => st.push(V::Q(Quantity::new(v, Unit::new(m, s)))),
            QTok::PushT(n) => st.push(V::T(Time(n))),
            QTok::PushD(n) => st.push(V::D(DimensionlessInteger(n))),
            QTok::Dup => {
                if let Some(x) = st.last().copied() {
                    st.push(x);
                }
            }
            QTok::Swap => {
                let n = st.len();
                if n >= 2 {
                    st.swap(n - 1, n - 2);
                }
            }
            QTok::Neg | QTok::Abs => {
                if let Some(x) = st.pop() {
                    st.push(match (x, *tok) {
                        (V::Q(q), QTok::Neg) => V::Q(-q),
                        (V::Q(q), _) => V::Q(q.abs()),
                        (V::T(t), QTok::Neg) => V::T(-t),
                        (V::D(d), QTok::Neg) => V::D(-d),
                        (other, _) => other,
                    });
                }
            }
            QTok::Lt | QTok::Eq | QTok::Le | QTok::Gt | QTok::Ge | QTok::Ne => {
                if st.len() >= 2 {
                    let (b, a) = (st.pop().unwrap(), st.pop().unwrap());
                    // the operators themselves (not partial_cmp): each may have its own cfg-gated implementation
                    macro_rules! cmp {
                        ($x:expr, $y:expr) => {
                            Some(match *tok {
                                QTok::Lt => $x < $y,
                                QTok::Le => $x <= $y,
                                QTok::Gt => $x > $y,
                                QTok::Ge => $x >= $y,
                                QTok::Ne => $x != $y,
                                _ => $x == $y,
                            })
                        };
                    }
                    let r = match (a, b) {
                        (V::Q(x), V::Q(y)) => cmp!(x, y),
                        (V::T(x), V::T(y)) => cmp!(x, y),
                        (V::D(x), V::D(y)) => cmp!(x, y),
                        _ => None,
                    };
                    out.push(match r {
                        Some(true) => "true",
                        Some(false) => "false",
                        None => "n/a",
                    }
                    .to_string());
                    st.push(a);
                }
            }
            QTok::ToTime => {
                if let Some(V::Q(q)) = st.last().copied() {
                    st.pop();
                    match Time::try_from(q) {
                        Ok(t) => st.push(V::T(t)),
                        Err(()) => out.push("rejected".to_string()),
                    }
                }
            }
            QTok::ToInt => {
                if let Some(V::Q(q)) = st.last().copied() {
                    st.pop();
                    match DimensionlessInteger::try_from(q) {
                        Ok(t) => st.push(V::D(t)),
                        Err(()) => out.push("rejected".to_string()),
                    }
                }
            }
            QTok::ToQuantity => {
                if let Some(x) = st.pop() {
                    st.push(match x {
                        V::T(t) => V::Q(Quantity::from(t)),
                        V::D(d) => V::Q(Quantity::from(d)),
                        q => q,
                    });
                }
            }
            op => {
                if st.len() >= 2 {
                    let (b, a) = (st.pop().unwrap(), st.pop().unwrap());
                    match bin(a, b, op) {
                        Some(r) => st.push(r),
                        None => {
                            st.push(a);
                            st.push(b);
                        }
                    }
                }
            }
        }
    }
    for v in st {
        match v {
            V::Q(q) => out.push(fb(q.value)),
            V::T(t) => out.push(format!("t{}", t.0)),
            V::D(d) => out.push(format!("d{}", d.0)),
        }
    }
}

// ---------------------------------------------------------------------------------------------
// state / command
// ---------------------------------------------------------------------------------------------
pub fn run_state(s0: [f32; 3], ops: &[StOp], out: &mut Vec<String>) {
    let mut s = State::new_raw(s0[0], s0[1], s0[2]);
    for op in ops {
        match *op {
            StOp::Update(dt) => s.update(Time(dt)),
            StOp::Set(k, v, m, sx) => {
                let q = Quantity::new(v, Unit::new(m, sx));
                let r = match k % 3 {
                    0 => s.set_constant_position(q),
                    1 => s.set_constant_velocity(q),
                    _ => s.set_constant_acceleration(q),
                };
                out.push(if r.is_ok() { "ok" } else { "rejected" }.to_string());
            }
            StOp::SetRaw(k, v) => match k % 3 {
                0 => s.set_constant_position_raw(v),
                1 => s.set_constant_velocity_raw(v),
                _ => s.set_constant_acceleration_raw(v),
            },
            StOp::Neg => s = -s,
            StOp::Add(o) => s += State::new_raw(o[0], o[1], o[2]),
            StOp::Sub(o) => s -= State::new_raw(o[0], o[1], o[2]),
            StOp::Mul(f) => s *= f,
            StOp::Div(f) => s = s / f,
            StOp::ToCommand => cmd_toks(Command::from(s), out),
            StOp::CommandOp(o, f) => {
                let c = Command::from(s);
                let r = match o % 5 {
                    0 => c + c,
                    1 => c - Command::new(PositionDerivative::from(c), f),
                    2 => c * f,
                    3 => c / f,
                    _ => -c,
                };
                cmd_toks(r, out);
                out.push(fb(Quantity::from(r).value));
                out.push(fb(r.get_acceleration().value));
                out.push(match r.get_velocity() {
                    Some(q) => fb(q.value),
                    None => "none".to_string(),
                });
                out.push(match r.get_position() {
                    Some(q) => fb(q.value),
                    None => "none".to_string(),
                });
            }
            StOp::GetValue(k) => out.push(fb(s.get_value(pd(k)).value)),
        }
        state_toks(s, out);
    }
}

// ---------------------------------------------------------------------------------------------
// motion profile
// ---------------------------------------------------------------------------------------------
pub fn run_profile(start: [f32; 3], end: [f32; 3], max_vel: f32, max_acc: f32, times: &[i64], out: &mut Vec<String>) {
    let built = std::panic::catch_unwind(|| MotionProfile::new(State::new_raw(start[0], start[1], start[2]), State::new_raw(end[0], end[1], end[2]), Quantity::new(max_vel, MILLIMETER_PER_SECOND), Quantity::new(max_acc, MILLIMETER_PER_SECOND_SQUARED)));
    let mp = match built {
        Ok(mp) => mp,
        Err(_) => {
            out.push("ctor-panicked".to_string());
            return;
        }
    };
    for &t in times {
        let tt = Time(t);
        out.push(format!("{:?}", mp.get_piece(tt)));
        out.push(format!("{:?}", mp.get_mode(tt)));
        // piece -> position derivative -> unit: which pieces have a unit at all must not depend on the configuration
        out.push(match PositionDerivative::try_from(mp.get_piece(tt)) {
            Ok(pd) => format!("pd{:?}", pd),
            Err(()) => "pd-none".to_string(),
        });
        out.push(if Unit::try_from(mp.get_piece(tt)).is_ok() { "unit-some" } else { "unit-none" }.to_string());
        for q in [mp.get_acceleration(tt), mp.get_velocity(tt), mp.get_position(tt)] {
            out.push(match q {
                Some(q) => fb(q.value),
                None => "none".to_string(),
            });
        }
        match <MotionProfile as History<Command, E>>::get(&mp, tt) {
            Some(d) => {
                out.push(format!("@{}", d.time.0));
                cmd_toks(d.value, out);
            }
            None => out.push("none".to_string()),
        }
    }
}

// ---------------------------------------------------------------------------------------------
// stateful streams
// ---------------------------------------------------------------------------------------------
fn obs_toks(o: &Obs, powf_derived: bool, out: &mut Vec<String>) {
    match o {
        Obs::Err(e) => out.push(format!("E:{}", e)),
        Obs::None => out.push("none".to_string()),
        Obs::Some(t, v) => {
            out.push(format!("@{}", t));
            for x in v {
                out.push(if powf_derived { pfb(*x) } else { fb(*x) });
            }
        }
    }
}
pub fn run_stream(kind: Kind, params: &Params, t0: i64, events: &[Ev], cond: &[CondEv], out: &mut Vec<String>) {
    let mut p = *params;
    if let Some(u) = required_unit(kind) {
        p.unit = u;
    }
    let is_ewma = matches!(kind, Kind::EwmaF32 | Kind::EwmaQuantity);
    let mut sut = build(kind, &p);
    let times = times_of(t0, events);
    // the EWMA's own notion of "time of the previous sample", to report the powf value it used
    let mut update_time: Option<i64> = None;
    let mut errored = false;
    let base = rc_ref_cell_reference(Scripted::<f32>::new());
    let expo = rc_ref_cell_reference(Scripted::<f32>::new());
    let pow_stream = ExponentStream::new(base.clone(), expo.clone());
    for (i, ev) in events.iter().enumerate() {
        (sut.feed)(ev, times[i]);
        if kind == Kind::Freeze && !cond.is_empty() {
            (sut.feed_cond)(&cond[i % cond.len()], times[i]);
        }
        match (sut.update)() {
            Ok(()) => out.push("u:ok".to_string()),
            Err(e) => out.push(format!("u:{}", err_tok(e))),
        }
        obs_toks(&(sut.get)(), is_ewma, out);
        // a consumer's unit check on a Quantity output: it passes in every configuration (without dimension checking nothing is
        // compared), so a label that is only wrong where labels are looked at shows up as a difference between configurations
        if let Some(u) = (sut.out_unit)() {
            let want = match kind {
                Kind::Integral => Unit::new(p.unit.0, p.unit.1.saturating_add(1)),
                Kind::Derivative => Unit::new(p.unit.0, p.unit.1.saturating_sub(1)),
                _ => p.unit(),
            };
            out.push(if u.eq_assume_true(&want) { "unit-ok" } else { "unit-mismatch" }.to_string());
        }
        if is_ewma {
            match ev {
                Ev::E(_) => {
                    update_time = None;
                    errored = true;
                }
                Ev::A => {
                    if errored {
                        update_time = None;
                        errored = false;
                    }
                }
                Ev::P(x, _) => {
                    errored = false;
                    let dt = match update_time {
                        Some(u) => times[i] - u,
                        None => 0,
                    };
                    update_time = Some(times[i]);
                    let dts = f32::from(Quantity::from(Time(dt)));
                    base.borrow_mut().cur = Ok(Some(Datum::new(Time(0), 1.0 - p.x)));
                    expo.borrow_mut().cur = Ok(Some(Datum::new(Time(0), dts)));
                    let pw = pow_stream.get().ok().flatten().map(|d| d.value).unwrap_or(f32::NAN);
                    // sample value, then the power-function value this configuration produces for it
                    out.push(format!("x{}", fb(*x)));
                    out.push(format!("pw{}", pfb(pw)));
                    out.push(format!("py{}", fb(dts)));
                    out.push(format!("pb{}", fb(1.0 - p.x)));
                }
            }
        }
    }
}

// ---------------------------------------------------------------------------------------------
// stateless network
// ---------------------------------------------------------------------------------------------
fn scripted<T: Clone + 'static>(i: &NIn, mk: impl Fn(&NIn) -> T) -> Reference<Scripted<T>> {
    let cur = match i.cat & 3 {
        0 => Err(mk_err(1)),
        1 => Err(mk_err(2)),
        2 => Ok(None),
        _ => Ok(Some(Datum::new(Time(i.t), mk(i)))),
    };
    rc_ref_cell_reference(Scripted { cur, reads: Cell::new(0) })
}
pub fn run_net(ins: &[NIn; 3], bools: &[NIn; 2], clock: Option<i64>, limit: i64, none_value: f32, out: &mut Vec<String>) {
    let f = |i: &NIn| i.v;
    let q = |i: &NIn| Quantity::new(i.v, MILLIMETER);
    let b = |i: &NIn| i.b;
    let clk = rc_ref_cell_reference(ScriptedClock { cur: match clock { Some(t) => Ok(Time(t)), None => Err(mk_err(9)) }, reads: Cell::new(0) });
    let ff = |x: &f32, o: &mut Vec<String>| o.push(fb(*x));
    let qf = |x: &Quantity, o: &mut Vec<String>| o.push(fb(x.value));
    let bf = |x: &bool, o: &mut Vec<String>| o.push(x.to_string());
    let dynf = |i: &NIn| to_dyn!(Getter<f32, E>, scripted(i, f));
    let dynq = |i: &NIn| to_dyn!(Getter<Quantity, E>, scripted(i, q));
    out_toks(SumStream::new([dynf(&ins[0]), dynf(&ins[1]), dynf(&ins[2])]).get(), ff, out);
    out_toks(ProductStream::new([dynf(&ins[0]), dynf(&ins[1]), dynf(&ins[2])]).get(), ff, out);
    out_toks(SumStream::new([dynq(&ins[0]), dynq(&ins[1])]).get(), qf, out);
    out_toks(ProductStream::new([dynq(&ins[0]), dynq(&ins[1]), dynq(&ins[2])]).get(), qf, out);
    out_toks(Sum2::new(scripted(&ins[0], f), scripted(&ins[1], f)).get(), ff, out);
    out_toks(Product2::new(scripted(&ins[1], q), scripted(&ins[2], q)).get(), qf, out);
    out_toks(DifferenceStream::new(scripted(&ins[0], q), scripted(&ins[1], q)).get(), qf, out);
    out_toks(QuotientStream::new(scripted(&ins[0], q), scripted(&ins[2], q)).get(), qf, out);
    out_toks(Latest::new([dynf(&ins[0]), dynf(&ins[1]), dynf(&ins[2])]).get(), ff, out);
    out_toks(IfStream::new(scripted(&bools[0], b), scripted(&ins[0], f)).get(), ff, out);
    out_toks(IfElseStream::new(scripted(&bools[1], b), scripted(&ins[1], f), scripted(&ins[2], f)).get(), ff, out);
    out_toks(Expirer::new(scripted(&ins[0], f), clk.clone(), Time(limit)).get(), ff, out);
    out_toks(NoneToError::new(scripted(&ins[1], f)).get(), ff, out);
    out_toks(NoneToValue::new(scripted(&ins[2], f), clk.clone(), none_value).get(), ff, out);
    out_toks(AndStream::new(scripted(&bools[0], b), scripted(&bools[1], b)).get(), bf, out);
    out_toks(OrStream::new(scripted(&bools[0], b), scripted(&bools[1], b)).get(), bf, out);
    out_toks(NotStream::new(scripted(&bools[0], b)).get(), bf, out);
    out_toks(ConstantGetter::new(clk.clone(), none_value).get(), ff, out);
    // exponent: base made positive so every power function is defined; powf-derived
    let pos = |i: &NIn| i.v.abs() + 0.5;
    match ExponentStream::new(scripted(&ins[0], pos), scripted(&ins[1], f)).get() {
        Ok(Some(d)) => {
            out.push(format!("@{}", d.time.0));
            // pass-through when the exponent is absent is exact, only a real power is powf-derived
            if ins[1].cat & 3 == 3 {
                out.push(format!("pw{}", pfb(d.value)));
                out.push(format!("py{}", fb(ins[1].v)));
                out.push(format!("pb{}", fb(pos(&ins[0]))));
            } else {
                out.push(fb(d.value));
            }
        }
        Ok(None) => out.push("none".to_string()),
        Err(e) => out.push(err_tok(e)),
    }
}

pub fn run_pow(pairs: &[[f32; 2]], out: &mut Vec<String>) {
    for (k, pr) in pairs.iter().enumerate() {
        let base = NIn { cat: 3, t: k as i64, v: pr[0], b: false };
        let expo = NIn { cat: 3, t: -(k as i64), v: pr[1], b: false };
        match ExponentStream::new(scripted(&base, |i| i.v), scripted(&expo, |i| i.v)).get() {
            Ok(Some(d)) => {
                out.push(format!("@{}", d.time.0));
                out.push(format!("pw{}", pfb(d.value)));
                out.push(format!("py{}", fb(pr[1])));
                out.push(format!("pb{}", fb(pr[0])));
            }
            Ok(None) => out.push("none".to_string()),
            Err(e) => out.push(err_tok(e)),
        }
    }
}

// ---------------------------------------------------------------------------------------------
// devices
// ---------------------------------------------------------------------------------------------
pub fn run_device(spec: &DevSpec, linked: &[bool], rounds: &[Vec<DFeed>], out: &mut Vec<String>) {
    let n = spec.terminals();
    let mut arena = Arena::new();
    let mut dev = make_dev(&mut arena, spec);
    let ext: Vec<Option<Term>> = (0..n).map(|i| if linked.get(i).copied().unwrap_or(false) { Some(arena.terminal()) } else { None }).collect();
    for i in 0..n {
        if let Some(e) = ext[i] {
            connect(dev.terms[i], e);
        }
    }
    let mut clock = 0i64;
    for round in rounds {
        for i in 0..n {
            let Some(f) = round.get(i) else { continue };
            clock += 10;
            if let Some(v) = f.own_state {
                set_state(dev.terms[i], Datum::new(Time(clock), st(v)));
            }
            if let (Some(v), Some(e)) = (f.ext_state, ext[i]) {
                set_state(e, Datum::new(Time(clock + 1), st(v)));
            }
            if let Some((k, v)) = f.own_cmd {
                set_command(dev.terms[i], Datum::new(Time(clock + 2), Command::new(pd(k), v)));
            }
            if let (Some((k, v)), Some(e)) = (f.ext_cmd, ext[i]) {
                set_command(e, Datum::new(Time(clock + 3), Command::new(pd(k), v)));
            }
        }
        match (dev.update)() {
            Ok(()) => out.push("u:ok".to_string()),
            Err(e) => out.push(format!("u:{}", err_tok(e))),
        }
        for i in 0..n {
            for t in [Some(dev.terms[i]), ext[i]].into_iter().flatten() {
                match read_state(t) {
                    Some(d) => {
                        out.push(format!("@{}", d.time.0));
                        state_toks(d.value, out);
                    }
                    None => out.push("none".to_string()),
                }
                match read_command(t) {
                    Some(d) => {
                        out.push(format!("@{}", d.time.0));
                        cmd_toks(d.value, out);
                    }
                    None => out.push("none".to_string()),
                }
                match read_data(t) {
                    Some(d) => out.push(format!("@{}", d.value.time.0)),
                    None => out.push("none".to_string()),
                }
            }
        }
    }
    drop(dev);
}

// ---------------------------------------------------------------------------------------------
// datum
// ---------------------------------------------------------------------------------------------
pub fn run_datum(t1: i64, t2: i64, a: f32, b: f32, out: &mut Vec<String>) {
    let (x, y) = (Datum::new(Time(t1), a), Datum::new(Time(t2), b));
    for d in [x + y, x - y, x * y, x / y, x + b, x * b, -x, latest(x, y)] {
        out.push(format!("@{}", d.time.0));
        out.push(fb(d.value));
    }
    let (qx, qy) = (Datum::new(Time(t1), Quantity::new(a, MILLIMETER)), Datum::new(Time(t2), Quantity::new(b, MILLIMETER)));
    for d in [qx + qy, qx - qy, qx * qy, qx / qy] {
        out.push(format!("@{}", d.time.0));
        out.push(fb(d.value.value));
    }
    let sx = Datum::new(Time(t1), State::new_raw(a, b, 1.0));
    for d in [sx * y, sx / y, sx * b, -sx] {
        out.push(format!("@{}", d.time.0));
        state_toks(d.value, out);
    }
    let mut slot = Some(x);
    out.push(slot.replace_if_none_or_older_than(y).to_string());
    let mut slot2 = x;
    out.push(slot2.replace_if_older_than(y).to_string());
    out.push(format!("@{}", slot2.time.0));
}

pub fn run_step(step: &Step, out: &mut Vec<String>) {
    match step {
        Step::Quantity(prog) => {
            run_constants(out);
            run_quantity(prog, out)
        }
        Step::StateOps { s, ops } => run_state(*s, ops, out),
        Step::Profile { start, end, max_vel, max_acc, times } => run_profile(*start, *end, *max_vel, *max_acc, times, out),
        Step::Stream { kind, params, t0, events, cond } => run_stream(*kind, params, *t0, events, cond, out),
        Step::Net { ins, bools, clock, limit, none_value } => run_net(ins, bools, *clock, *limit, *none_value, out),
        Step::Device { spec, linked, rounds } => run_device(spec, linked, rounds, out),
        Step::DatumOps { t1, t2, a, b } => run_datum(*t1, *t2, *a, *b, out),
        Step::Pow { pairs } => run_pow(pairs, out),
    }
}
/// One token list per step; a step that panics yields the single token "PANIC".
pub fn run_program(p: &Program) -> Vec<Vec<String>> {
    p.iter()
        .map(|s| {
            let mut out = Vec::new();
            match std::panic::catch_unwind(std::panic::AssertUnwindSafe(|| run_step(s, &mut out))) {
                Ok(()) => out,
                Err(_) => vec!["PANIC".to_string()],
            }
        })
        .collect()
}
