//! Interpreter for Reference handle sequences (C17). Shared verbatim (via #[path]) between the main
//! harness crate, which declares cargo features named `alloc` and `std`, and the `downstream`
//! crate built with and without them: `to_dyn!` must behave the same in both. The crate features `interp_alloc` /
//! `interp_std` (names deliberately different from `alloc` / `std`) say which Reference variants the rrtk this is
//! compiled against offers: `ds_variants` builds it against an alloc-only and a feature-less rrtk as well.
use rrtk::*;
use std::sync::atomic::{AtomicU32, Ordering};
use std::sync::{Arc, Mutex, RwLock};

pub trait Cell64 {
    fn get64(&self) -> i64;
    fn set64(&mut self, v: i64);
}
pub struct Payload {
    pub value: i64,
    pub drops: Arc<AtomicU32>,
}
impl Drop for Payload {
    fn drop(&mut self) {
        self.drops.fetch_add(1, Ordering::SeqCst);
    }
}
impl Cell64 for Payload {
    fn get64(&self) -> i64 {
        self.value
    }
    fn set64(&mut self, v: i64) {
        self.value = v;
    }
}

#[derive(Clone, Copy, Debug, PartialEq, Eq, Hash)]
pub enum Variant {
    Ptr,
    RcRefCell,
    PtrRwLock,
    PtrMutex,
    ArcRwLock,
    ArcMutex,
}
pub const VARIANTS: [Variant; 6] = [Variant::Ptr, Variant::RcRefCell, Variant::PtrRwLock, Variant::PtrMutex, Variant::ArcRwLock, Variant::ArcMutex];
impl Variant {
    /// variants `to_dyn!` lists
    pub fn dyn_convertible(self) -> bool {
        matches!(self, Variant::Ptr | Variant::RcRefCell | Variant::PtrRwLock)
    }
    pub fn counted(self) -> bool {
        matches!(self, Variant::RcRefCell | Variant::ArcRwLock | Variant::ArcMutex)
    }
    /// does the rrtk build this interpreter is compiled against have the variant?
    pub fn available(self) -> bool {
        match self {
            Variant::Ptr => true,
            Variant::RcRefCell => cfg!(feature = "interp_alloc"),
            _ => cfg!(feature = "interp_std"),
        }
    }
}
#[derive(Clone, Copy, Debug, PartialEq)]
pub enum HOp {
    Clone(u8),
    ToDyn(u8),
    Read(u8),
    Write(u8, i64),
    Drop(u8),
}
enum Handle {
    Concrete(Reference<Payload>),
    Dyn(Reference<dyn Cell64>),
}
impl Handle {
    fn read(&self) -> i64 {
        match self {
            Handle::Concrete(r) => r.borrow().get64(),
            Handle::Dyn(r) => r.borrow().get64(),
        }
    }
    fn write(&self, v: i64) {
        match self {
            Handle::Concrete(r) => r.borrow_mut().set64(v),
            Handle::Dyn(r) => r.borrow_mut().set64(v),
        }
    }
    fn dup(&self) -> Handle {
        match self {
            Handle::Concrete(r) => Handle::Concrete(r.clone()),
            Handle::Dyn(r) => Handle::Dyn(r.clone()),
        }
    }
}
pub struct Info {
    pub nontrivial: bool,
    pub max_handles: usize,
    pub used_dyn: bool,
}
#[allow(dead_code)]
enum Backing {
    Ptr(*mut Payload),
    RwLock(*mut RwLock<Payload>),
    Mutex(*mut Mutex<Payload>),
    Counted,
}
fn fail(key: &str, msg: String) -> Result<Info, (String, String)> {
    Err((key.to_string(), msg))
}

/// Runs one sequence. `Err((key, message))` describes a violated expectation.
pub fn run(variant: Variant, ops: &[HOp]) -> Result<Info, (String, String)> {
    let drops = Arc::new(AtomicU32::new(0));
    let payload = Payload { value: 0, drops: drops.clone() };
    let (first, backing): (Reference<Payload>, Backing) = match variant {
        Variant::Ptr => {
            let p = Box::into_raw(Box::new(payload));
            (unsafe { Reference::from_ptr(p) }, Backing::Ptr(p))
        }
        #[cfg(feature = "interp_alloc")]
        Variant::RcRefCell => (rc_ref_cell_reference(payload), Backing::Counted),
        #[cfg(feature = "interp_std")]
        Variant::PtrRwLock => {
            let p = Box::into_raw(Box::new(RwLock::new(payload)));
            (unsafe { Reference::from_ptr_rw_lock(p as *const RwLock<Payload>) }, Backing::RwLock(p))
        }
        #[cfg(feature = "interp_std")]
        Variant::PtrMutex => {
            let p = Box::into_raw(Box::new(Mutex::new(payload)));
            (unsafe { Reference::from_ptr_mutex(p as *const Mutex<Payload>) }, Backing::Mutex(p))
        }
        #[cfg(feature = "interp_std")]
        Variant::ArcRwLock => (arc_rw_lock_reference(payload), Backing::Counted),
        #[cfg(feature = "interp_std")]
        Variant::ArcMutex => (arc_mutex_reference(payload), Backing::Counted),
        #[allow(unreachable_patterns)]
        _ => return fail("C17/protocol", format!("variant {:?} does not exist in this build of rrtk", variant)),
    };
    let vname = format!("{:?}", variant);
    let mut handles: Vec<Option<Handle>> = vec![Some(Handle::Concrete(first))];
    let mut value = 0i64;
    let mut max_handles = 1;
    let mut used_dyn = false;
    let mut wrote_via: Option<usize> = None;
    let mut cross_read = false;
    let result = (|| {
        for (step, op) in ops.iter().enumerate() {
            let live: Vec<usize> = (0..handles.len()).filter(|&i| handles[i].is_some()).collect();
            if live.is_empty() {
                break;
            }
            let pick = |k: u8| live[k as usize % live.len()];
            match *op {
                HOp::Clone(k) => {
                    let h = handles[pick(k)].as_ref().unwrap().dup();
                    handles.push(Some(h));
                }
                HOp::ToDyn(k) => {
                    let i = pick(k);
                    if !variant.dyn_convertible() {
                        continue;
                    }
                    let new = match handles[i].as_ref().unwrap() {
                        Handle::Concrete(r) => {
                            let r2 = r.clone();
                            // `interp_no_to_dyn`: control build that proves the crate compiles apart from the macro
                            #[cfg(feature = "interp_no_to_dyn")]
                            let converted: Result<Reference<dyn Cell64>, ()> = {
                                let _ = r2;
                                continue;
                            };
                            #[cfg(not(feature = "interp_no_to_dyn"))]
                            let evaluations = core::cell::Cell::new(0u32);
                            #[cfg(not(feature = "interp_no_to_dyn"))]
                            let converted = std::panic::catch_unwind(std::panic::AssertUnwindSafe(|| {
                                to_dyn!(Cell64, {
                                    evaluations.set(evaluations.get() + 1);
                                    r2.clone()
                                })
                            }));
                            // the macro's argument is an expression like any function argument: evaluated exactly once
                            #[cfg(not(feature = "interp_no_to_dyn"))]
                            {
                                if converted.is_ok() && evaluations.get() != 1 {
                                    return fail(&format!("C17/to_dyn/argument-evaluations/{}", vname), format!("step {}: to_dyn!(Cell64, <expression>) on a {} reference evaluated its argument expression {} times", step, vname, evaluations.get()));
                                }
                            }
                            match converted {
                                Ok(d) => Handle::Dyn(d),
                                Err(_) => return fail(&format!("C17/to_dyn-panics/{}", vname), format!("step {}: to_dyn!(Cell64, <{} reference>) panicked although the macro lists this variant", step, vname)),
                            }
                        }
                        Handle::Dyn(r) => Handle::Dyn(r.clone()),
                    };
                    used_dyn = true;
                    handles.push(Some(new));
                }
                HOp::Read(k) => {
                    let i = pick(k);
                    let got = handles[i].as_ref().unwrap().read();
                    if got != value {
                        return fail(&format!("C17/alias/{}", vname), format!("step {}: handle {} reads {} but {} was written through handle {:?}", step, i, got, value, wrote_via));
                    }
                    if wrote_via.map(|w| w != i).unwrap_or(false) {
                        cross_read = true;
                    }
                }
                HOp::Write(k, v) => {
                    let i = pick(k);
                    handles[i].as_ref().unwrap().write(v);
                    value = v;
                    wrote_via = Some(i);
                    // observed through every other clone
                    for &j in &live {
                        let got = handles[j].as_ref().unwrap().read();
                        if got != v {
                            return fail(&format!("C17/alias/{}", vname), format!("step {}: wrote {} through handle {} but handle {} reads {}", step, v, i, j, got));
                        }
                    }
                    if live.len() >= 2 {
                        cross_read = true;
                    }
                }
                HOp::Drop(k) => {
                    let i = pick(k);
                    handles[i] = None;
                    let remaining = handles.iter().filter(|h| h.is_some()).count();
                    let d = drops.load(Ordering::SeqCst);
                    let want = if variant.counted() && remaining == 0 { 1 } else { 0 };
                    if d != want {
                        return fail(&format!("C17/lifetime/{}", vname), format!("step {}: after dropping handle {} ({} handles remain) the target was dropped {} times, expected {}", step, i, remaining, d, want));
                    }
                }
            }
            max_handles = max_handles.max(handles.iter().filter(|h| h.is_some()).count());
        }
        // the target is alive while any clone exists
        let remaining = handles.iter().filter(|h| h.is_some()).count();
        if remaining > 0 && drops.load(Ordering::SeqCst) != 0 {
            return fail(&format!("C17/lifetime/{}", vname), "the target was dropped while handles exist".to_string());
        }
        handles.clear();
        let d = drops.load(Ordering::SeqCst);
        let want = if variant.counted() { 1 } else { 0 };
        if d != want {
            return fail(&format!("C17/lifetime/{}", vname), format!("after dropping every handle the target was dropped {} times, expected {}", d, want));
        }
        Ok(Info { nontrivial: max_handles >= 2 && used_dyn && cross_read, max_handles, used_dyn })
    })();
    handles.clear();
    match backing {
        Backing::Ptr(p) => unsafe { drop(Box::from_raw(p)) },
        Backing::RwLock(p) => unsafe { drop(Box::from_raw(p)) },
        Backing::Mutex(p) => unsafe { drop(Box::from_raw(p)) },
        Backing::Counted => {}
    }
    result
}

/// Text protocol used to ship sequences to the downstream binaries: `<variant> <op>;<op>;...`
pub fn encode(variant: Variant, ops: &[HOp]) -> String {
    let v = VARIANTS.iter().position(|x| *x == variant).unwrap();
    let body: Vec<String> = ops
        .iter()
        .map(|o| match o {
            HOp::Clone(k) => format!("c{}", k),
            HOp::ToDyn(k) => format!("d{}", k),
            HOp::Read(k) => format!("r{}", k),
            HOp::Write(k, v) => format!("w{}:{}", k, v),
            HOp::Drop(k) => format!("x{}", k),
        })
        .collect();
    format!("{} {}", v, body.join(";"))
}
pub fn decode(line: &str) -> Option<(Variant, Vec<HOp>)> {
    let mut it = line.trim().splitn(2, ' ');
    let v: usize = it.next()?.parse().ok()?;
    let rest = it.next().unwrap_or("");
    let mut ops = Vec::new();
    for tok in rest.split(';').filter(|t| !t.is_empty()) {
        let (c, arg) = tok.split_at(1);
        ops.push(match c {
            "c" => HOp::Clone(arg.parse().ok()?),
            "d" => HOp::ToDyn(arg.parse().ok()?),
            "r" => HOp::Read(arg.parse().ok()?),
            "x" => HOp::Drop(arg.parse().ok()?),
            "w" => {
                let mut p = arg.splitn(2, ':');
                HOp::Write(p.next()?.parse().ok()?, p.next()?.parse().ok()?)
            }
            _ => return None,
        });
    }
    Some((*VARIANTS.get(v)?, ops))
}
