//! Shared device plumbing for C08, C13, C20: an arena that gives devices and terminals a stable
//! address for the duration of one case (the harness never moves a device after taking a terminal
//! reference - the API's lifetime hole is C16's subject, not a licence to trigger UB elsewhere).
use rrtk::devices::*;
use rrtk::*;
use serde::{Deserialize, Serialize};
use std::cell::RefCell;

pub type E = u8;
pub type Term = &'static RefCell<Terminal<'static, E>>;

pub struct Arena {
    frees: Vec<Box<dyn FnOnce()>>,
}
impl Arena {
    pub fn new() -> Self {
        Arena { frees: Vec::new() }
    }
    /// Heap-allocates `v` and hands out a reference that is valid until the arena is dropped.
    pub fn alloc<T: 'static>(&mut self, v: T) -> &'static mut T {
        let ptr = Box::into_raw(Box::new(v));
        self.frees.push(Box::new(move || unsafe { drop(Box::from_raw(ptr)) }));
        unsafe { &mut *ptr }
    }
    pub fn terminal(&mut self) -> Term {
        self.alloc(Terminal::<'static, E>::new())
    }
}
impl Drop for Arena {
    fn drop(&mut self) {
        // unlink everything first so that no terminal is dropped while another still points at it
        while let Some(f) = self.frees.pop() {
            f();
        }
    }
}

#[derive(Clone, Debug, Serialize, Deserialize, PartialEq)]
pub enum DevSpec {
    Invert,
    Gear(f32),
    GearTeeth(Vec<f32>),
    Axle(u8),
    /// 0 Side1, 1 Side2, 2 Sum, 3 Equal
    Diff(u8),
}
impl DevSpec {
    pub fn terminals(&self) -> usize {
        match self {
            DevSpec::Invert | DevSpec::Gear(_) | DevSpec::GearTeeth(_) => 2,
            DevSpec::Axle(n) => *n as usize,
            DevSpec::Diff(_) => 3,
        }
    }
    pub fn code(&self) -> u8 {
        match self {
            DevSpec::Invert => 0,
            DevSpec::Gear(_) => 1,
            DevSpec::GearTeeth(_) => 2,
            DevSpec::Axle(n) => 10 + n,
            DevSpec::Diff(m) => 20 + m % 4,
        }
    }
    /// side 2 = ratio * side 1 (None for devices without a ratio)
    pub fn ratio(&self) -> Option<f32> {
        match self {
            DevSpec::Invert => Some(-1.0),
            DevSpec::Gear(r) => Some(*r),
            DevSpec::GearTeeth(t) => Some(t[0] / t[t.len() - 1] * if t.len() % 2 == 0 { -1.0 } else { 1.0 }),
            _ => None,
        }
    }
}

pub struct Dev {
    pub terms: Vec<Term>,
    pub update: Box<dyn FnMut() -> NothingOrError<E>>,
}

macro_rules! axle {
    ($arena:expr, $n:literal) => {{
        let d: &'static mut Axle<'static, $n, E> = $arena.alloc(Axle::<'static, $n, E>::new());
        let terms: Vec<Term> = (0..$n).map(|i| d.get_terminal(i)).collect();
        Dev { terms, update: Box::new(move || d.update()) }
    }};
}
fn teeth_dev<const N: usize>(arena: &mut Arena, t: &[f32]) -> Dev {
    let arr: [f32; N] = core::array::from_fn(|i| t[i]);
    let d: &'static mut GearTrain<'static, E> = arena.alloc(GearTrain::new(arr));
    Dev { terms: vec![d.get_terminal_1(), d.get_terminal_2()], update: Box::new(move || d.update()) }
}

pub fn make_dev(arena: &mut Arena, spec: &DevSpec) -> Dev {
    match spec {
        DevSpec::Invert => {
            let d: &'static mut Invert<'static, E> = arena.alloc(Invert::new());
            Dev { terms: vec![d.get_terminal_1(), d.get_terminal_2()], update: Box::new(move || d.update()) }
        }
        DevSpec::Gear(r) => {
            let d: &'static mut GearTrain<'static, E> = arena.alloc(GearTrain::with_ratio(Quantity::dimensionless(*r)));
            Dev { terms: vec![d.get_terminal_1(), d.get_terminal_2()], update: Box::new(move || d.update()) }
        }
        DevSpec::GearTeeth(t) => match t.len() {
            2 => teeth_dev::<2>(arena, t),
            3 => teeth_dev::<3>(arena, t),
            4 => teeth_dev::<4>(arena, t),
            5 => teeth_dev::<5>(arena, t),
            _ => teeth_dev::<6>(arena, &t[..6.min(t.len())]),
        },
        DevSpec::Axle(n) => match n {
            0 => axle!(arena, 0),
            1 => axle!(arena, 1),
            2 => axle!(arena, 2),
            3 => axle!(arena, 3),
            4 => axle!(arena, 4),
            5 => axle!(arena, 5),
            6 => axle!(arena, 6),
            7 => axle!(arena, 7),
            _ => axle!(arena, 8),
        },
        DevSpec::Diff(m) => {
            let mode = match m % 4 {
                0 => DifferentialDistrust::Side1,
                1 => DifferentialDistrust::Side2,
                2 => DifferentialDistrust::Sum,
                _ => DifferentialDistrust::Equal,
            };
            let d: &'static mut Differential<'static, E> = arena.alloc(Differential::with_distrust(mode));
            Dev { terms: vec![d.get_side_1(), d.get_side_2(), d.get_sum()], update: Box::new(move || d.update()) }
        }
    }
}

pub fn set_state(t: Term, d: Datum<State>) {
    <Terminal<E> as Settable<Datum<State>, E>>::set(&mut t.borrow_mut(), d).expect("terminal set is infallible");
}
pub fn set_command(t: Term, d: Datum<Command>) {
    <Terminal<E> as Settable<Datum<Command>, E>>::set(&mut t.borrow_mut(), d).expect("terminal set is infallible");
}
pub fn read_state(t: Term) -> Option<Datum<State>> {
    <Terminal<E> as Getter<State, E>>::get(&t.borrow()).expect("terminal reads never fail")
}
pub fn read_command(t: Term) -> Option<Datum<Command>> {
    <Terminal<E> as Getter<Command, E>>::get(&t.borrow()).expect("terminal reads never fail")
}
pub fn read_data(t: Term) -> Option<Datum<TerminalData>> {
    <Terminal<E> as Getter<TerminalData, E>>::get(&t.borrow()).expect("terminal reads never fail")
}
pub fn own_state(t: Term) -> Option<Datum<State>> {
    <Terminal<E> as Settable<Datum<State>, E>>::get_last_request(&t.borrow())
}
pub fn own_command(t: Term) -> Option<Datum<Command>> {
    <Terminal<E> as Settable<Datum<Command>, E>>::get_last_request(&t.borrow())
}
pub fn pd(k: u8) -> PositionDerivative {
    match k % 3 {
        0 => PositionDerivative::Position,
        1 => PositionDerivative::Velocity,
        _ => PositionDerivative::Acceleration,
    }
}
pub fn st(a: [f32; 3]) -> State {
    State::new_raw(a[0], a[1], a[2])
}
pub fn flat(s: State) -> [f32; 3] {
    [s.position, s.velocity, s.acceleration]
}
