//! (shared via #[path] between the main harness and the per-configuration `cfgrun` crate)
//! Scripted inputs and uniform wrappers ("stream under test") around rrtk's stateful streams, shared
//! by C04, C05, C10, C11, C12. Plain data in (events), plain data out (`Obs`).
use rrtk::streams::control::*;
use rrtk::streams::converters::*;
use rrtk::streams::flow::*;
use rrtk::streams::math::*;
use rrtk::*;
use serde::{Deserialize, Serialize};
use std::cell::Cell;

pub type E = u8;

/// A getter whose output is set by the test between updates; counts how often it is read.
pub struct Scripted<T> {
    pub cur: Output<T, E>,
    pub reads: Cell<u32>,
}
impl<T> Scripted<T> {
    pub fn new() -> Self {
        Self { cur: Ok(None), reads: Cell::new(0) }
    }
}
impl<T: Clone> Getter<T, E> for Scripted<T> {
    fn get(&self) -> Output<T, E> {
        self.reads.set(self.reads.get() + 1);
        self.cur.clone()
    }
}
impl<T> Updatable<E> for Scripted<T> {
    fn update(&mut self) -> NothingOrError<E> {
        Ok(())
    }
}
/// A clock set by the test.
pub struct ScriptedClock {
    pub cur: TimeOutput<E>,
    pub reads: Cell<u32>,
}
impl TimeGetter<E> for ScriptedClock {
    fn get(&self) -> TimeOutput<E> {
        self.reads.set(self.reads.get() + 1);
        self.cur
    }
}
impl Updatable<E> for ScriptedClock {
    fn update(&mut self) -> NothingOrError<E> {
        Ok(())
    }
}

/// One input event. `P(value, dt)`: a present sample `dt` ns after the previous present sample.
#[derive(Clone, Copy, Debug, Serialize, Deserialize, PartialEq)]
pub enum Ev {
    P(f32, i64),
    A,
    E(u8),
}
impl Ev {
    pub fn kind_code(&self) -> u8 {
        match self {
            Ev::P(..) => 0,
            Ev::A => 1,
            Ev::E(e) => 2 + (*e % 3),
        }
    }
    pub fn is_present(&self) -> bool {
        matches!(self, Ev::P(..))
    }
}
#[derive(Clone, Copy, Debug, Serialize, Deserialize, PartialEq)]
pub enum CondEv {
    T,
    F,
    A,
    E(u8),
}

pub fn err_code(e: Error<E>) -> i32 {
    match e {
        Error::Other(x) => x as i32,
        Error::FromNone => -1,
        _ => -2,
    }
}
/// code 0 stands for `Error::FromNone` (observed as -1 by `err_code`), everything else for `Error::Other(code)`
pub fn mk_err(code: u8) -> Error<E> {
    if code == 0 {
        Error::FromNone
    } else {
        Error::Other(code)
    }
}
/// what `err_code` reports for an error injected with `mk_err(code)`
pub fn exp_code(code: u8) -> i32 {
    if code == 0 {
        -1
    } else {
        code as i32
    }
}

/// Normalised observation of a `get()`.
#[derive(Clone, Debug, PartialEq)]
pub enum Obs {
    Err(i32),
    None,
    Some(i64, Vec<f32>),
}
impl Obs {
    /// equality modulo NaN==NaN, -0==+0
    pub fn same(&self, o: &Obs) -> bool {
        match (self, o) {
            (Obs::Err(a), Obs::Err(b)) => a == b,
            (Obs::None, Obs::None) => true,
            (Obs::Some(t1, v1), Obs::Some(t2, v2)) => t1 == t2 && v1.len() == v2.len() && v1.iter().zip(v2).all(|(a, b)| (a.is_nan() && b.is_nan()) || a == b),
            _ => false,
        }
    }
    pub fn shifted(&self, by: i64) -> Obs {
        match self {
            Obs::Some(t, v) => Obs::Some(t + by, v.clone()),
            o => o.clone(),
        }
    }
}

#[derive(Clone, Copy, Debug, Serialize, Deserialize, PartialEq, Eq, Hash)]
pub enum Kind {
    Pid,
    CommandPid,
    EwmaF32,
    EwmaQuantity,
    MovingAverageF32,
    MovingAverageQuantity,
    Integral,
    Derivative,
    AccelerationToState,
    VelocityToState,
    PositionToState,
    FloatToQuantity,
    QuantityToFloat,
    Freeze,
}
pub const ALL_KINDS: [Kind; 14] = [
    Kind::Pid,
    Kind::CommandPid,
    Kind::EwmaF32,
    Kind::EwmaQuantity,
    Kind::MovingAverageF32,
    Kind::MovingAverageQuantity,
    Kind::Integral,
    Kind::Derivative,
    Kind::AccelerationToState,
    Kind::VelocityToState,
    Kind::PositionToState,
    Kind::FloatToQuantity,
    Kind::QuantityToFloat,
    Kind::Freeze,
];

#[derive(Clone, Copy, Debug, Serialize, Deserialize, PartialEq)]
pub struct Params {
    /// gains kp, ki, kd (PID / CommandPID)
    pub k: [f32; 3],
    /// setpoint (PID), command value (CommandPID), smoothing constant (EWMA)
    pub x: f32,
    /// command kind for CommandPID: 0 position, 1 velocity, 2 acceleration
    pub cmd_kind: u8,
    /// window in ns (moving average)
    pub window: i64,
    /// unit of Quantity inputs where free (Integral, Derivative, EWMA/MA Quantity, FloatToQuantity)
    pub unit: (i8, i8),
}
impl Params {
    pub fn unit(&self) -> Unit {
        Unit::new(self.unit.0, self.unit.1)
    }
}
pub fn pd(k: u8) -> PositionDerivative {
    match k % 3 {
        0 => PositionDerivative::Position,
        1 => PositionDerivative::Velocity,
        _ => PositionDerivative::Acceleration,
    }
}
/// The State fed to CommandPID for a scalar sample `v`: all three components differ.
pub fn state_of(v: f32) -> State {
    State::new_raw(v, v * 0.5 + 1.0, -v)
}

pub struct Sut {
    /// set what the scripted input returns from now on (`t` = absolute timestamp of a present sample)
    pub feed: Box<dyn Fn(&Ev, i64)>,
    pub feed_cond: Box<dyn Fn(&CondEv, i64)>,
    pub update: Box<dyn FnMut() -> NothingOrError<E>>,
    pub get: Box<dyn Fn() -> Obs>,
    /// the unit of the output, when the output is a Quantity
    pub out_unit: Box<dyn Fn() -> Option<Unit>>,
    pub input_reads: Box<dyn Fn() -> u32>,
}

fn out_of<T>(o: Output<T, E>, flat: impl Fn(&T) -> Vec<f32>) -> Obs {
    match o {
        Err(e) => Obs::Err(err_code(e)),
        Ok(None) => Obs::None,
        Ok(Some(d)) => Obs::Some(d.time.0, flat(&d.value)),
    }
}
fn flat_f32(x: &f32) -> Vec<f32> {
    vec![*x]
}
fn flat_q(x: &Quantity) -> Vec<f32> {
    vec![x.value]
}
fn flat_state(x: &State) -> Vec<f32> {
    vec![x.position, x.velocity, x.acceleration]
}

fn assemble<TI: Clone + 'static, TO: 'static, S: Getter<TO, E> + Updatable<E> + 'static>(
    input: Reference<Scripted<TI>>,
    stream: S,
    conv_in: impl Fn(f32) -> TI + 'static,
    flat: fn(&TO) -> Vec<f32>,
    unit_of: fn(&TO) -> Option<Unit>,
) -> Sut {
    let stream = rc_ref_cell_reference(stream);
    let (i1, i2) = (input.clone(), input.clone());
    let (s1, s2, s3) = (stream.clone(), stream.clone(), stream.clone());
    Sut {
        feed: Box::new(move |ev, t| {
            i1.borrow_mut().cur = match ev {
                Ev::P(v, _) => Ok(Some(Datum::new(Time(t), conv_in(*v)))),
                Ev::A => Ok(None),
                Ev::E(e) => Err(mk_err(*e)),
            };
        }),
        feed_cond: Box::new(|_, _| {}),
        update: Box::new(move || s1.borrow_mut().update()),
        get: Box::new(move || out_of(s2.borrow().get(), flat)),
        out_unit: Box::new(move || match s3.borrow().get() {
            Ok(Some(d)) => unit_of(&d.value),
            _ => None,
        }),
        input_reads: Box::new(move || i2.borrow().reads.get()),
    }
}
fn no_unit<T>(_: &T) -> Option<Unit> {
    None
}
fn q_unit(q: &Quantity) -> Option<Unit> {
    Some(q.unit)
}

pub fn command_of(p: &Params) -> Command {
    Command::new(pd(p.cmd_kind), p.x)
}
pub fn kvals_of(p: &Params) -> PositionDerivativeDependentPIDKValues {
    // the same gains rotated per kind so that using the wrong kind's gains is visible
    PositionDerivativeDependentPIDKValues::new(
        PIDKValues::new(p.k[0], p.k[1], p.k[2]),
        PIDKValues::new(p.k[1], p.k[2], p.k[0]),
        PIDKValues::new(p.k[2], p.k[0], p.k[1]),
    )
}
pub fn gains_for(p: &Params, kind: u8) -> [f32; 3] {
    match kind % 3 {
        0 => [p.k[0], p.k[1], p.k[2]],
        1 => [p.k[1], p.k[2], p.k[0]],
        _ => [p.k[2], p.k[0], p.k[1]],
    }
}

pub fn build(kind: Kind, p: &Params) -> Sut {
    let unit = p.unit();
    match kind {
        Kind::Pid => {
            let input = rc_ref_cell_reference(Scripted::<f32>::new());
            let s = PIDControllerStream::new(input.clone(), p.x, PIDKValues::new(p.k[0], p.k[1], p.k[2]));
            assemble(input, s, |v| v, flat_f32, no_unit)
        }
        Kind::CommandPid => {
            let input = rc_ref_cell_reference(Scripted::<State>::new());
            let s = CommandPID::new(input.clone(), command_of(p), kvals_of(p));
            assemble(input, s, state_of, flat_f32, no_unit)
        }
        Kind::EwmaF32 => {
            let input = rc_ref_cell_reference(Scripted::<f32>::new());
            let s = EWMAStream::new(input.clone(), p.x);
            assemble(input, s, |v| v, flat_f32, no_unit)
        }
        Kind::EwmaQuantity => {
            let input = rc_ref_cell_reference(Scripted::<Quantity>::new());
            let s = EWMAStream::new(input.clone(), p.x);
            assemble(input, s, move |v| Quantity::new(v, unit), flat_q, q_unit)
        }
        Kind::MovingAverageF32 => {
            let input = rc_ref_cell_reference(Scripted::<f32>::new());
            let s = MovingAverageStream::new(input.clone(), Time(p.window));
            assemble(input, s, |v| v, flat_f32, no_unit)
        }
        Kind::MovingAverageQuantity => {
            let input = rc_ref_cell_reference(Scripted::<Quantity>::new());
            let s = MovingAverageStream::new(input.clone(), Time(p.window));
            assemble(input, s, move |v| Quantity::new(v, unit), flat_q, q_unit)
        }
        Kind::Integral => {
            let input = rc_ref_cell_reference(Scripted::<Quantity>::new());
            let s = IntegralStream::new(input.clone());
            assemble(input, s, move |v| Quantity::new(v, unit), flat_q, q_unit)
        }
        Kind::Derivative => {
            let input = rc_ref_cell_reference(Scripted::<Quantity>::new());
            let s = DerivativeStream::new(input.clone());
            assemble(input, s, move |v| Quantity::new(v, unit), flat_q, q_unit)
        }
        Kind::AccelerationToState => {
            let input = rc_ref_cell_reference(Scripted::<Quantity>::new());
            let s = AccelerationToState::new(input.clone());
            assemble(input, s, move |v| Quantity::new(v, unit), flat_state, no_unit)
        }
        Kind::VelocityToState => {
            let input = rc_ref_cell_reference(Scripted::<Quantity>::new());
            let s = VelocityToState::new(input.clone());
            assemble(input, s, move |v| Quantity::new(v, unit), flat_state, no_unit)
        }
        Kind::PositionToState => {
            let input = rc_ref_cell_reference(Scripted::<Quantity>::new());
            let s = PositionToState::new(input.clone());
            assemble(input, s, move |v| Quantity::new(v, unit), flat_state, no_unit)
        }
        Kind::FloatToQuantity => {
            let input = rc_ref_cell_reference(Scripted::<f32>::new());
            let s = FloatToQuantity::new(unit, input.clone());
            assemble(input, s, |v| v, flat_q, q_unit)
        }
        Kind::QuantityToFloat => {
            let input = rc_ref_cell_reference(Scripted::<Quantity>::new());
            let s = QuantityToFloat::new(input.clone());
            assemble(input, s, move |v| Quantity::new(v, unit), flat_f32, no_unit)
        }
        Kind::Freeze => {
            let input = rc_ref_cell_reference(Scripted::<f32>::new());
            let cond = rc_ref_cell_reference(Scripted::<bool>::new());
            let s = FreezeStream::new(cond.clone(), input.clone());
            let mut sut = assemble(input, s, |v| v, flat_f32, no_unit);
            sut.feed_cond = Box::new(move |c, t| {
                cond.borrow_mut().cur = match c {
                    CondEv::T => Ok(Some(Datum::new(Time(t), true))),
                    CondEv::F => Ok(Some(Datum::new(Time(t), false))),
                    CondEv::A => Ok(None),
                    CondEv::E(e) => Err(mk_err(*e)),
                };
            });
            sut
        }
    }
}

/// The unit a to-state converter requires.
pub fn required_unit(kind: Kind) -> Option<(i8, i8)> {
    match kind {
        Kind::AccelerationToState => Some((1, -2)),
        Kind::VelocityToState => Some((1, -1)),
        Kind::PositionToState => Some((1, 0)),
        _ => None,
    }
}

/// absolute timestamps of a history: a present sample advances time by its dt.
pub fn times_of(t0: i64, events: &[Ev]) -> Vec<i64> {
    let mut t = t0;
    events
        .iter()
        .map(|e| {
            if let Ev::P(_, dt) = e {
                t += dt;
            }
            t
        })
        .collect()
}

