//! Shared engine: proptest runner from a binary, exhaustive enumerators, evidence, replay,
//! known findings. Every property module only supplies a scenario type, a strategy, optional
//! enumerators and a `check` function; everything else lives here (DESIGN.md section 2).
use proptest::strategy::{BoxedStrategy, Strategy, ValueTree};
use proptest::test_runner::{Config, RngAlgorithm, RngSeed, TestCaseError, TestError, TestRng, TestRunner};
use serde::de::DeserializeOwned;
use serde::{Deserialize, Serialize};
use std::cell::RefCell;
use std::collections::{BTreeMap, HashSet};
use std::fmt::Debug;
use std::hash::{Hash, Hasher};
use std::panic::{catch_unwind, AssertUnwindSafe};
use std::path::{Path, PathBuf};
use std::sync::{Arc, Mutex};
use std::time::Instant;

/// Root of the verification tree: $VERIF_ROOT (set by ./run to its own directory), default /verif.
pub fn verif_root() -> PathBuf {
    PathBuf::from(std::env::var("VERIF_ROOT").unwrap_or_else(|_| "/verif".to_string()))
}
/// Depth multiplier of the thorough tier's generated cases ($VERIF_THOROUGH_SCALE, default 4; the quick tier is fixed work).
pub fn scaled_cases(cases: u32, tier: Tier) -> u32 {
    match tier {
        Tier::Quick => cases,
        Tier::Thorough => {
            let k = std::env::var("VERIF_THOROUGH_SCALE").ok().and_then(|v| v.parse::<u32>().ok()).unwrap_or(4).clamp(1, 1000);
            cases.saturating_mul(k)
        }
    }
}
/// The repository under test: $VERIF_REPO, default /repo.
pub fn repo_root() -> String {
    std::env::var("VERIF_REPO").unwrap_or_else(|_| "/repo".to_string())
}

#[derive(Clone, Copy, Debug, PartialEq, Eq)]
pub enum Tier {
    Quick,
    Thorough,
}
impl Tier {
    pub fn name(self) -> &'static str {
        match self {
            Tier::Quick => "quick",
            Tier::Thorough => "thorough",
        }
    }
    pub fn pick<T>(self, quick: T, thorough: T) -> T {
        match self {
            Tier::Quick => quick,
            Tier::Thorough => thorough,
        }
    }
}

/// What a passing case reports back: whether it is non-trivial by the property's stated rule, the
/// key under which it is counted as distinct, and generator-distribution labels.
#[derive(Clone, Debug, Default)]
pub struct CaseInfo {
    pub nontrivial: bool,
    pub key: u64,
    pub classes: Vec<&'static str>,
}
impl CaseInfo {
    pub fn new(nontrivial: bool, key: u64) -> Self {
        Self { nontrivial, key, classes: Vec::new() }
    }
    pub fn class(mut self, c: &'static str) -> Self {
        self.classes.push(c);
        self
    }
    pub fn class_if(mut self, cond: bool, c: &'static str) -> Self {
        if cond {
            self.classes.push(c);
        }
        self
    }
}

/// A failed case. `key` identifies the failing *site* (not the random values) and is what
/// known_findings.json is matched against.
#[derive(Clone, Debug)]
pub struct Violation {
    pub key: String,
    pub message: String,
}
impl Violation {
    pub fn new(key: impl Into<String>, message: impl Into<String>) -> Self {
        Self { key: key.into(), message: message.into() }
    }
}
pub type CheckResult = Result<CaseInfo, Violation>;

#[macro_export]
macro_rules! ensure {
    ($cond:expr, $key:expr, $($fmt:tt)+) => {
        if !($cond) {
            return Err($crate::common::Violation::new($key, format!($($fmt)+)));
        }
    };
}

pub fn hash_of<T: Hash + ?Sized>(t: &T) -> u64 {
    let mut h = std::collections::hash_map::DefaultHasher::new();
    t.hash(&mut h);
    h.finish()
}

pub fn splitmix(mut x: u64) -> u64 {
    x = x.wrapping_add(0x9E3779B97F4A7C15);
    let mut z = x;
    z = (z ^ (z >> 30)).wrapping_mul(0xBF58476D1CE4E5B9);
    z = (z ^ (z >> 27)).wrapping_mul(0x94D049BB133111EB);
    z ^ (z >> 31)
}

// ---------------------------------------------------------------------------------------------
// Panics
// ---------------------------------------------------------------------------------------------
thread_local! {
    static LAST_PANIC: RefCell<Option<String>> = const { RefCell::new(None) };
}
pub fn install_silent_panic_hook() {
    std::panic::set_hook(Box::new(|info| {
        let msg = format!("{}", info);
        if std::env::var("VERIF_DEBUG_PANICS").is_ok() {
            eprintln!("[panic] {}", msg);
        }
        LAST_PANIC.with(|l| *l.borrow_mut() = Some(msg));
    }));
}
/// Run `f`, turning a panic into `Err(message)`.
pub fn catch<T>(f: impl FnOnce() -> T) -> Result<T, String> {
    match catch_unwind(AssertUnwindSafe(f)) {
        Ok(v) => Ok(v),
        Err(_) => Err(LAST_PANIC.with(|l| l.borrow_mut().take()).unwrap_or_else(|| "panic".to_string())),
    }
}
pub fn panics<T>(f: impl FnOnce() -> T) -> bool {
    catch(f).is_err()
}

// ---------------------------------------------------------------------------------------------
// Known findings
// ---------------------------------------------------------------------------------------------
#[derive(Clone, Debug, Deserialize)]
pub struct Finding {
    pub property: String,
    pub key: String,
    pub status: String,
    #[serde(default)]
    pub commit: Option<String>,
    pub what: String,
}
#[derive(Clone, Debug, Deserialize, Default)]
pub struct FindingsFile {
    #[serde(default)]
    pub findings: Vec<Finding>,
}
pub fn load_findings() -> Vec<Finding> {
    let p = verif_root().join("known_findings.json");
    match std::fs::read_to_string(&p) {
        Ok(s) => match serde_json::from_str::<FindingsFile>(&s) {
            Ok(f) => f.findings,
            Err(e) => {
                eprintln!("cannot parse {}: {}", p.display(), e);
                std::process::exit(2);
            }
        },
        Err(_) => Vec::new(),
    }
}

// ---------------------------------------------------------------------------------------------
// Property trait
// ---------------------------------------------------------------------------------------------
pub trait Property: 'static {
    const ID: &'static str;
    /// How cases are generated and what makes one non-trivial / distinct (goes into evidence).
    const RULE: &'static str;
    type Scenario: Serialize + DeserializeOwned + Debug + Clone + Send + 'static;
    fn strategy(tier: Tier) -> BoxedStrategy<Self::Scenario>;
    /// proptest cases per shard.
    fn cases(tier: Tier) -> u32;
    fn shards(tier: Tier) -> u32 {
        tier.pick(4, 16)
    }
    /// Enumerated scenarios (finite sub-spaces named by the quantifier). Return `true` from the
    /// sink to continue. The String names the enumerated sub-space when it was covered completely.
    fn exhaustive(_tier: Tier, _sink: &mut dyn FnMut(Self::Scenario)) -> Vec<String> {
        Vec::new()
    }
    fn check(s: &Self::Scenario) -> CheckResult;
    /// Is an externally supplied scenario (fuzzer input, hand-written replay) inside the property's input domain?
    /// The proptest strategies only produce valid scenarios by construction; the fuzz engine filters with this.
    fn valid(_s: &Self::Scenario) -> bool {
        true
    }
    fn assumptions() -> Vec<String> {
        Vec::new()
    }
    /// Extra key/values for the coverage object (e.g. measured numeric head-room).
    fn extra_coverage() -> BTreeMap<String, serde_json::Value> {
        BTreeMap::new()
    }
}

#[derive(Serialize, Deserialize)]
pub struct ReplayFile {
    pub property: String,
    pub key: String,
    pub message: String,
    pub scenario: serde_json::Value,
}

pub struct Stats<S> {
    pub evaluations: u64,
    pub nontrivial_total: u64,
    pub distinct: HashSet<u64>,
    pub classes: BTreeMap<&'static str, u64>,
    pub first: Option<S>,
    pub mid: Option<S>,
    pub last: Option<S>,
    next_sample_at: u64,
    pub excluded_known: BTreeMap<String, u64>,
}
impl<S: Clone> Stats<S> {
    pub fn new() -> Self {
        Self {
            evaluations: 0,
            nontrivial_total: 0,
            distinct: HashSet::new(),
            classes: BTreeMap::new(),
            first: None,
            mid: None,
            last: None,
            next_sample_at: 1,
            excluded_known: BTreeMap::new(),
        }
    }
    pub fn record(&mut self, s: &S, info: &CaseInfo) {
        self.evaluations += 1;
        for c in &info.classes {
            *self.classes.entry(c).or_insert(0) += 1;
        }
        if info.nontrivial {
            self.nontrivial_total += 1;
            self.distinct.insert(info.key);
            if self.first.is_none() {
                self.first = Some(s.clone());
            } else if self.nontrivial_total >= self.next_sample_at {
                self.mid = self.last.take();
                self.last = Some(s.clone());
                self.next_sample_at = self.nontrivial_total * 2;
            }
        }
    }
    pub fn merge(&mut self, o: Stats<S>) {
        self.evaluations += o.evaluations;
        self.nontrivial_total += o.nontrivial_total;
        self.distinct.extend(o.distinct);
        for (k, v) in o.classes {
            *self.classes.entry(k).or_insert(0) += v;
        }
        if self.first.is_none() {
            self.first = o.first;
        }
        if o.mid.is_some() {
            self.mid = o.mid;
        }
        if o.last.is_some() {
            self.last = o.last;
        }
        for (k, v) in o.excluded_known {
            *self.excluded_known.entry(k).or_insert(0) += v;
        }
    }
}

pub struct Found {
    pub key: String,
    pub message: String,
    pub scenario: serde_json::Value,
}

pub struct RunCtx {
    pub tier: Tier,
    pub seed: u64,
    pub known: Vec<Finding>,
}
impl RunCtx {
    pub fn from_env(tier: Tier) -> Self {
        let seed = std::env::var("VERIF_SEED")
            .ok()
            .and_then(|s| s.trim().parse::<i128>().ok())
            .map(|v| v as u64)
            .unwrap_or(20261002);
        Self { tier, seed, known: load_findings() }
    }
    fn known_status(&self, id: &str, key: &str) -> Option<&Finding> {
        self.known.iter().find(|f| f.property == id && f.key == key && f.status == "known")
    }
}

/// Runs `P::check` guarded against unexpected panics.
pub fn guarded_check<P: Property>(s: &P::Scenario) -> CheckResult {
    match catch(|| P::check(s)) {
        Ok(r) => r,
        Err(msg) => Err(Violation::new(
            format!("{}/unexpected-panic", P::ID),
            format!("unexpected panic while checking an in-domain case: {}", msg),
        )),
    }
}

fn known_line_once(printed: &Mutex<HashSet<String>>, id: &str, f: &Finding) {
    let mut p = printed.lock().unwrap();
    if p.insert(f.key.clone()) {
        println!("KNOWN-FINDING: property={} {} [{}]", id, f.what, f.key);
    }
}

fn write_replay(id: &str, found: &Found) -> PathBuf {
    let dir = verif_root().join("work").join("replays");
    let _ = std::fs::create_dir_all(&dir);
    let rf = ReplayFile {
        property: id.to_string(),
        key: found.key.clone(),
        message: found.message.clone(),
        scenario: found.scenario.clone(),
    };
    let text = serde_json::to_string_pretty(&rf).unwrap();
    let path = dir.join(format!("{}-{:016x}.json", id, hash_of(&text)));
    std::fs::write(&path, text).unwrap();
    path
}

pub fn run_property<P: Property>(ctx: &RunCtx) -> i32 {
    let start = Instant::now();
    let printed_known = Arc::new(Mutex::new(HashSet::<String>::new()));
    let mut stats: Stats<P::Scenario> = Stats::new();
    let mut found: Vec<Found> = Vec::new();
    let mut exhaustive_spaces: Vec<String> = Vec::new();

    // One case through check + known-findings filter. Ok(Some(info)) = pass, Ok(None) = excluded.
    let eval = |s: &P::Scenario, stats: &mut Stats<P::Scenario>| -> Result<(), Violation> {
        match guarded_check::<P>(s) {
            Ok(info) => {
                stats.record(s, &info);
                Ok(())
            }
            Err(v) => {
                if let Some(f) = ctx.known_status(P::ID, &v.key) {
                    known_line_once(&printed_known, P::ID, f);
                    *stats.excluded_known.entry(v.key.clone()).or_insert(0) += 1;
                    stats.evaluations += 1;
                    Ok(())
                } else {
                    Err(v)
                }
            }
        }
    };

    // 1. saved regressions
    let mut regressions_run = 0u64;
    let regdir = verif_root().join("regressions").join(P::ID);
    if let Ok(rd) = std::fs::read_dir(&regdir) {
        let mut files: Vec<PathBuf> = rd.filter_map(|e| e.ok()).map(|e| e.path()).filter(|p| p.extension().map(|x| x == "json").unwrap_or(false)).collect();
        files.sort();
        for f in files {
            let text = match std::fs::read_to_string(&f) {
                Ok(t) => t,
                Err(_) => continue,
            };
            let rf: ReplayFile = match serde_json::from_str(&text) {
                Ok(r) => r,
                Err(e) => {
                    eprintln!("bad regression file {}: {}", f.display(), e);
                    return 2;
                }
            };
            let s: P::Scenario = match serde_json::from_value(rf.scenario.clone()) {
                Ok(s) => s,
                Err(e) => {
                    eprintln!("regression file {} does not match the scenario type: {}", f.display(), e);
                    return 2;
                }
            };
            regressions_run += 1;
            if let Err(v) = eval(&s, &mut stats) {
                found.push(Found { key: v.key, message: v.message, scenario: rf.scenario });
            }
        }
    }

    // 2. exhaustive enumerations
    if found.is_empty() && std::env::var("VERIF_SKIP_EXHAUSTIVE").is_err() {
        let mut first_fail: Option<(P::Scenario, Violation)> = None;
        let mut sink = |s: P::Scenario| {
            if first_fail.is_some() {
                return;
            }
            if let Err(v) = eval(&s, &mut stats) {
                first_fail = Some((s, v));
            }
        };
        let spaces = P::exhaustive(ctx.tier, &mut sink);
        if let Some((s, v)) = first_fail {
            found.push(Found { key: v.key, message: v.message, scenario: serde_json::to_value(&s).unwrap() });
        } else {
            exhaustive_spaces = spaces;
        }
    }

    // 3. proptest shards
    let cases_per_shard = scaled_cases(P::cases(ctx.tier), ctx.tier);
    if found.is_empty() && P::cases(ctx.tier) > 0 {
        let shards = P::shards(ctx.tier);
        let results: Vec<(Stats<P::Scenario>, Option<Found>)> = std::thread::scope(|scope| {
            let mut handles = Vec::new();
            for shard in 0..shards {
                let eval = &eval;
                handles.push(scope.spawn(move || {
                    let seed = splitmix(ctx.seed ^ hash_of(P::ID) ^ (shard as u64).wrapping_mul(0xA24BAED4963EE407));
                    let config = Config {
                        cases: cases_per_shard,
                        failure_persistence: None,
                        rng_seed: RngSeed::Fixed(seed),
                        rng_algorithm: RngAlgorithm::ChaCha,
                        max_shrink_iters: 50_000,
                        max_global_rejects: 1_000_000,
                        ..Config::default()
                    };
                    let mut runner = TestRunner::new(config);
                    let st: RefCell<Stats<P::Scenario>> = RefCell::new(Stats::new());
                    let failed = std::cell::Cell::new(false);
                    let last_violation: RefCell<Option<Violation>> = RefCell::new(None);
                    let res = runner.run(&P::strategy(ctx.tier), |s| {
                        if failed.get() {
                            // shrinking: no statistics, no known-finding bookkeeping
                            return match guarded_check::<P>(&s) {
                                Ok(_) => Ok(()),
                                Err(v) => {
                                    if ctx.known_status(P::ID, &v.key).is_some() {
                                        Ok(())
                                    } else {
                                        let m = v.message.clone();
                                        *last_violation.borrow_mut() = Some(v);
                                        Err(TestCaseError::fail(m))
                                    }
                                }
                            };
                        }
                        match eval(&s, &mut st.borrow_mut()) {
                            Ok(()) => Ok(()),
                            Err(v) => {
                                failed.set(true);
                                let m = v.message.clone();
                                *last_violation.borrow_mut() = Some(v);
                                Err(TestCaseError::fail(m))
                            }
                        }
                    });
                    let found = match res {
                        Ok(()) => None,
                        Err(TestError::Fail(_, s)) => {
                            // re-evaluate the minimal scenario to get its own key/message
                            let v = match guarded_check::<P>(&s) {
                                Err(v) => v,
                                Ok(_) => last_violation.borrow_mut().take().unwrap_or(Violation::new(format!("{}/unstable", P::ID), "failure did not reproduce on the shrunk scenario")),
                            };
                            Some(Found { key: v.key, message: v.message, scenario: serde_json::to_value(&s).unwrap() })
                        }
                        Err(TestError::Abort(r)) => Some(Found {
                            key: format!("{}/generator-abort", P::ID),
                            message: format!("proptest aborted: {}", r),
                            scenario: serde_json::Value::Null,
                        }),
                    };
                    (st.into_inner(), found)
                }));
            }
            handles
                .into_iter()
                .map(|h| match h.join() {
                    Ok(r) => r,
                    Err(_) => {
                        eprintln!("INFRASTRUCTURE: a shard thread of the checker itself panicked (set VERIF_DEBUG_PANICS=1 to see where)");
                        std::process::exit(2);
                    }
                })
                .collect()
        });
        for (st, f) in results {
            stats.merge(st);
            if let Some(f) = f {
                if f.key.ends_with("/generator-abort") {
                    eprintln!("{}", f.message);
                    return 2;
                }
                if !found.iter().any(|g| g.key == f.key) {
                    found.push(f);
                }
            }
        }
    }

    // 4. report
    let wall = start.elapsed().as_secs_f64();
    let mut samples: Vec<serde_json::Value> = Vec::new();
    for s in [&stats.first, &stats.mid, &stats.last].into_iter().flatten() {
        samples.push(serde_json::to_value(s).unwrap());
    }
    let mut coverage = serde_json::Map::new();
    coverage.insert("evaluations".into(), stats.evaluations.into());
    coverage.insert("distinct_nontrivial".into(), (stats.distinct.len() as u64).into());
    coverage.insert("nontrivial_total".into(), stats.nontrivial_total.into());
    coverage.insert("rule".into(), P::RULE.into());
    coverage.insert("samples".into(), samples.into());
    coverage.insert(
        "classes".into(),
        serde_json::Value::Object(stats.classes.iter().map(|(k, v)| (k.to_string(), (*v).into())).collect()),
    );
    coverage.insert("exhaustive_subspaces".into(), exhaustive_spaces.clone().into());
    coverage.insert("exhaustive".into(), (!exhaustive_spaces.is_empty() && P::cases(ctx.tier) == 0).into());
    coverage.insert("regressions_replayed".into(), regressions_run.into());
    coverage.insert(
        "excluded_known".into(),
        serde_json::Value::Object(stats.excluded_known.iter().map(|(k, v)| (k.clone(), (*v).into())).collect()),
    );
    coverage.insert("proptest_shards".into(), P::shards(ctx.tier).into());
    coverage.insert("proptest_cases_per_shard".into(), cases_per_shard.into());
    for (k, v) in P::extra_coverage() {
        coverage.insert(k, v);
    }
    // statistics of the libFuzzer campaign that ./run thorough ran just before (engine E2), if any
    if ctx.tier == Tier::Thorough {
        let f = verif_root().join("work").join(format!("fuzz-{}.json", P::ID));
        let fresh = std::fs::metadata(&f).and_then(|m| m.modified()).ok().and_then(|t| t.elapsed().ok()).map(|d| d.as_secs() < 6 * 3600).unwrap_or(false);
        if fresh {
            if let Ok(v) = serde_json::from_str::<serde_json::Value>(&std::fs::read_to_string(&f).unwrap_or_default()) {
                coverage.insert("fuzz_campaign".into(), v);
            }
        }
    }
    let evidence = serde_json::json!({
        "property_id": P::ID,
        "tier": ctx.tier.name(),
        "seed": ctx.seed as i64,
        "level": "exploration",
        "coverage": coverage,
        "assumptions": P::assumptions(),
        "wall_s": wall,
        "violations": found.len(),
    });
    let evdir = verif_root().join("evidence");
    let _ = std::fs::create_dir_all(&evdir);
    std::fs::write(evdir.join(format!("{}.json", P::ID)), serde_json::to_string_pretty(&evidence).unwrap() + "\n").unwrap();

    println!(
        "{} {}: evaluations={} distinct_nontrivial={} regressions={} exhaustive={:?} wall={:.1}s",
        P::ID,
        ctx.tier.name(),
        stats.evaluations,
        stats.distinct.len(),
        regressions_run,
        exhaustive_spaces,
        wall
    );
    if found.is_empty() {
        0
    } else {
        for f in &found {
            let path = write_replay(P::ID, f);
            println!("violation detail: key={} message={}", f.key, f.message);
            println!("VIOLATION property={} replay={}", P::ID, path.display());
        }
        1
    }
}

pub fn replay_property<P: Property>(rf: &ReplayFile, path: &Path) -> i32 {
    let s: P::Scenario = match serde_json::from_value(rf.scenario.clone()) {
        Ok(s) => s,
        Err(e) => {
            eprintln!("replay file does not match the scenario type of {}: {}", P::ID, e);
            return 2;
        }
    };
    match guarded_check::<P>(&s) {
        Ok(_) => {
            println!("replay of {}: property holds on this scenario", path.display());
            0
        }
        Err(v) => {
            println!("violation detail: key={} message={}", v.key, v.message);
            println!("VIOLATION property={} replay={}", P::ID, path.display());
            1
        }
    }
}

/// Draw one scenario from a strategy using bytes as the random tape (used by the fuzz targets).
pub fn scenario_from_bytes<S: Debug>(strategy: &BoxedStrategy<S>, data: &[u8]) -> Option<S> {
    let mut tape = data.to_vec();
    // pad with a non-zero xorshift tail: PassThrough spins forever on an exhausted tape
    let mut x = hash_of(data) | 1;
    while tape.len() < data.len() + 262_144 {
        x ^= x << 13;
        x ^= x >> 7;
        x ^= x << 17;
        tape.extend_from_slice(&x.to_le_bytes());
    }
    let rng = TestRng::from_seed(RngAlgorithm::PassThrough, &tape);
    let mut runner = TestRunner::new_with_rng(Config { failure_persistence: None, ..Config::default() }, rng);
    strategy.new_tree(&mut runner).ok().map(|t| t.current())
}

// ---------------------------------------------------------------------------------------------
// Strategy helpers
// ---------------------------------------------------------------------------------------------
pub mod gen {
    use proptest::prelude::*;

    /// Finite f32 of "moderate magnitude": 0, or |x| in [1e-3, 1e4], sign-mixed, with a bias towards
    /// small integers and halves (which make exactness claims meaningful).
    pub fn moderate() -> BoxedStrategy<f32> {
        prop_oneof![
            1 => Just(0.0f32),
            3 => (-40i32..=40).prop_map(|i| i as f32 * 0.25),
            6 => (any::<bool>(), -3.0f64..4.0f64).prop_map(|(neg, e)| {
                let v = 10f64.powf(e) as f32;
                if neg { -v } else { v }
            }),
            // a small pool of special in-range values, so that exact coincidences (equal values, negated twins, the
            // sign of zero, the ends of the range, powers of two) are generated at all
            2 => proptest::sample::select(vec![-0.0f32, 0.5, -0.5, 1.0, -1.0, 2.0, -2.0, 0.25, 3.0, 1.0e-3, -1.0e-3, 1.0e4, -1.0e4, 0.001953125, 8192.0]),
        ]
        .boxed()
    }
    /// moderate values most of the time, otherwise any magnitude in [1e-30, 1e15] (both signs): for oracles that
    /// carry their own error bound or are exact, where the statement says "all finite values"
    pub fn wide() -> BoxedStrategy<f32> {
        prop_oneof![
            6 => moderate(),
            3 => (any::<bool>(), -30.0f64..15.0f64).prop_map(|(neg, e)| {
                let v = 10f64.powf(e) as f32;
                if neg { -v } else { v }
            }),
        ]
        .boxed()
    }
    /// moderate values most of the time, otherwise any finite f32 (subnormals, extremes): for exact oracles only
    pub fn mostly_moderate_any_finite() -> BoxedStrategy<f32> {
        prop_oneof![5 => moderate(), 3 => finite_f32()].boxed()
    }
    /// the f32 `k` ulps away from `x` (stays finite)
    pub fn near(x: f32, k: i32) -> f32 {
        if !x.is_finite() {
            return x;
        }
        let mut b = x.to_bits() as i64;
        // walk in sign-magnitude order
        let neg = x.is_sign_negative();
        let mag = (b & 0x7FFF_FFFF) + if neg { -(k as i64) } else { k as i64 };
        b = if mag < 0 { (-mag) | if neg { 0 } else { 0x8000_0000 } } else { mag | if neg { 0x8000_0000 } else { 0 } };
        let y = f32::from_bits(b as u32);
        if y.is_finite() { y } else { x }
    }
    /// i64 values that sit on or next to an f32 rounding tie and need more than 53 bits: where a conversion through
    /// f64 (double rounding) or a truncating conversion differs from a correctly rounded `as f32`
    pub fn tie_i64() -> BoxedStrategy<i64> {
        (25u32..=62, 0u32..(1 << 23), -2i64..=2, any::<bool>(), any::<bool>())
            .prop_map(|(e, mant, delta, odd, neg)| {
                // value = 1.mant * 2^e, plus half an f32 ulp (2^(e-24)), plus a small delta
                let m = ((1u64 << 23) | mant as u64) as i128;
                let m = if odd { m | 1 } else { m & !1 };
                let shift = e as i32 - 23;
                let base: i128 = if shift >= 0 { m << shift } else { m >> (-shift) };
                let half: i128 = if e >= 24 { 1i128 << (e - 24) } else { 0 };
                let v = (base + half + delta as i128).clamp(-(1i128 << 62), 1i128 << 62) as i64;
                if neg { -v } else { v }
            })
            .boxed()
    }
    /// repeat some elements of a sequence (run lengths 2..=max_run), truncated to `cap`: long-range state such as
    /// "32 absent updates in a row" is practically unreachable for an element-wise random sequence
    pub fn with_runs<T: Clone + std::fmt::Debug + 'static>(seq: BoxedStrategy<Vec<T>>, max_run: usize, cap: usize) -> BoxedStrategy<Vec<T>> {
        (seq, proptest::collection::vec((any::<u8>(), 2usize..=max_run.max(2)), 0..4))
            .prop_map(move |(v, runs)| {
                if v.is_empty() {
                    return v;
                }
                let mut out = v.clone();
                for (pos, len) in runs {
                    if out.len() >= cap {
                        break;
                    }
                    let i = pos as usize % out.len();
                    let x = out[i].clone();
                    let room = cap - out.len();
                    for _ in 0..len.min(room) {
                        out.insert(i, x.clone());
                    }
                }
                out.truncate(cap);
                out
            })
            .boxed()
    }
    pub fn moderate_nonzero() -> BoxedStrategy<f32> {
        moderate().prop_map(|x| if x == 0.0 { 1.5 } else { x }).boxed()
    }
    /// intervals a uniform or log-uniform draw practically never produces: powers of two and of ten in ns, the ends of
    /// the range, and values just above the lower end
    pub fn special_ns(lo: i64, hi: i64) -> BoxedStrategy<i64> {
        let mut pool: Vec<i64> = vec![lo, lo + 1, hi, hi - 1];
        for k in 0..62 {
            for d in [-1i64, 0, 1] {
                pool.push((1i64 << k) + d);
            }
        }
        let mut p = 1i64;
        for _ in 0..18 {
            pool.push(p);
            pool.push(p * 5);
            p *= 10;
        }
        pool.retain(|x| *x >= lo && *x <= hi);
        pool.sort();
        pool.dedup();
        prop_oneof![3 => proptest::sample::select(pool), 1 => (lo..=(lo.saturating_mul(2)).min(hi))].boxed()
    }
    /// log-uniform positive nanosecond interval in [lo, hi].
    pub fn log_ns(lo: i64, hi: i64) -> BoxedStrategy<i64> {
        let (a, b) = ((lo as f64).ln(), (hi as f64).ln());
        (a..=b).prop_map(move |x| (x.exp().round() as i64).clamp(lo, hi)).boxed()
    }
    /// Any finite f32 incl. subnormals and +-0.
    pub fn finite_f32() -> BoxedStrategy<f32> {
        prop_oneof![
            4 => any::<u32>().prop_map(|b| {
                let f = f32::from_bits(b);
                if f.is_finite() { f } else { f32::from_bits(b & 0x7F7F_FFFF) }
            }),
            1 => Just(0.0f32),
            1 => Just(-0.0f32),
            1 => (1u32..0x0080_0000).prop_map(f32::from_bits),
            3 => moderate(),
        ]
        .boxed()
    }
}

// ---------------------------------------------------------------------------------------------
// input-domain predicates (mirror the generators in `gen`)
// ---------------------------------------------------------------------------------------------
pub mod dom {
    pub fn moderate(x: f32) -> bool {
        x == 0.0 || (x.is_finite() && (1.0e-3..=1.0e4).contains(&x.abs()))
    }
    pub fn wide(x: f32) -> bool {
        x == 0.0 || (x.is_finite() && (1.0e-30..=1.0e15).contains(&x.abs()))
    }
    pub fn finite(x: f32) -> bool {
        x.is_finite()
    }
    /// sampling interval: 1 us .. 3 h (strictly positive)
    pub fn dt_pos(dt: i64) -> bool {
        (1_000..=10_800_000_000_000).contains(&dt)
    }
    pub fn t0(t: i64) -> bool {
        t.unsigned_abs() <= 1_000_000_000_000
    }
    /// start time of a history of at most 64 intervals of at most 3 h: anything that cannot overflow
    pub fn t0_span(t: i64) -> bool {
        t <= i64::MAX - 700_000_000_000_000
    }
    pub fn grid(u: (i8, i8)) -> bool {
        u.0.unsigned_abs() <= 3 && u.1.unsigned_abs() <= 3
    }
}

// ---------------------------------------------------------------------------------------------
// f32 comparison helpers
// ---------------------------------------------------------------------------------------------
/// bit-equal modulo NaN==NaN and -0==+0
pub fn same_f32(a: f32, b: f32) -> bool {
    (a.is_nan() && b.is_nan()) || a == b
}
/// strict bit equality except NaN payloads
pub fn bits_eq(a: f32, b: f32) -> bool {
    (a.is_nan() && b.is_nan()) || a.to_bits() == b.to_bits()
}
pub fn ulp32(x: f64) -> f64 {
    let a = x.abs() as f32;
    if !a.is_finite() {
        return f64::INFINITY;
    }
    let next = f32::from_bits(a.to_bits() + 1);
    (next as f64) - (a as f64)
}
