//! C16 — no safe use of the API reads uninitialised memory, goes out of bounds or dangles.
//! (a) scratch arrays: exhaustive patterns with the cfg(rrtk_verif) poison hook compiled in;
//! (b) lifetimes: generated `#![forbid(unsafe_code)]` probe programs, oracle = the compiler must
//!     reject them (controls = the same programs with the device kept alive must compile).
use crate::c02;
use crate::common::*;
use crate::devs::*;
use crate::ensure;
use proptest::prelude::*;
use rrtk::*;
use serde::{Deserialize, Serialize};
use std::collections::HashMap;
use std::path::{Path, PathBuf};
use std::process::Command as Proc;
use std::sync::OnceLock;

#[derive(Clone, Debug, Serialize, Deserialize, PartialEq)]
pub enum Scenario {
    /// n-ary sum (false) / product (true) with `arity` inputs; bit i of `mask` = input i present
    Nary { product: bool, arity: u8, mask: u8, time_perm: u8 },
    /// terminal state read: (own present, partner present, linked)
    /// `order`: 0 partner newer, 1 own newer, 2 equal times, 3 own i64::MAX / partner i64::MIN, 4 the reverse;
    /// `from_partner`: read at the partner's end instead
    TerminalRead {
        own: bool,
        partner: bool,
        linked: bool,
        #[serde(default)]
        order: u8,
        #[serde(default)]
        from_partner: bool,
    },
    /// Axle::<N>::new() then use every terminal
    AxleNew(u8),
    /// Axle::<n>::get_terminal(index): in range => a distinct slot inside the axle object; out of range => a panic
    /// (or still a slot of this axle), never a reference to memory outside the object
    AxleIndex { n: u8, index: u64 },
    /// run-time side of "no borrow or Reference outlives its object" for the safe constructors: a Borrow / BorrowMut of a
    /// lock-backed Reference keeps the lock for as long as it lives (0 Arc<Mutex>, 1 Arc<RwLock>; observed with try_lock on the
    /// shared Arc), and (2) evaluating a static_* call site a second time hands out the same, untouched object - nobody can
    /// replace or drop the target under a live borrow. Shares C17's drivers.
    LiveTarget(u8),
    /// the scratch-array enumeration (arity 1..=max) as a plain program under `cargo +nightly miri run`, hook off
    Miri { max_arity: u8 },
    /// probe program by index into the generated list; `control` = its must-compile twin
    Probe { id: String, control: bool },
}

// ------------------------------------------------------------------------------------------------
// (a) scratch arrays
// ------------------------------------------------------------------------------------------------
const PRIMES: [f32; 8] = [2.0, 3.0, 5.0, 7.0, 11.0, 13.0, 17.0, 19.0];
fn check_nary(product: bool, arity: u8, mask: u8, time_perm: u8) -> CheckResult {
    let n = arity as usize;
    assert!((1..=8).contains(&n));
    let ins: Vec<c02::In> = (0..n)
        .map(|i| c02::In { cat: if mask >> i & 1 == 1 { 3 } else { 2 }, t: 100 + ((i as i64 * (2 * time_perm as i64 + 1) + time_perm as i64) % 11) * 7, v: if product { PRIMES[i] } else { (1u32 << i) as f32 }, b: false })
        .collect();
    let s = c02::Scenario { stream: if product { c02::SK::ProductN } else { c02::SK::SumN }, ins: ins.clone(), quantity: false, clock_ok: true, clock_t: 0, limit: 0, none_value: 0.0 };
    let r = catch(|| c02::eval(&s));
    ensure!(r.is_ok(), "C16/nary/panic", "arity {} pattern {:#010b}: get() panicked: {}", n, mask, r.unwrap_err());
    let (first, _) = r.unwrap();
    let present: Vec<&c02::In> = ins.iter().filter(|i| i.cat == 3).collect();
    let want: c02::Out = if present.is_empty() {
        Ok(None)
    } else {
        let v = if product { present.iter().map(|p| p.v).product::<f32>() } else { present.iter().map(|p| p.v).sum::<f32>() };
        Ok(Some((present.iter().map(|p| p.t).max().unwrap(), c02::Val::F(v))))
    };
    ensure!(
        format!("{:?}", first) == format!("{:?}", want),
        "C16/nary/unwritten-slot",
        "{} of arity {} with present pattern {:#010b}: got {:?}, the fold over exactly the present inputs is {:?} (the result identifies the contributing subset; a poisoned slot reads as ~3.39e38)",
        if product { "product" } else { "sum" }, n, mask, first, want
    );
    // the same pattern with the absent inputs replaced by getters whose presence flips on every call (present first, then
    // absent first): however often the stream polls an input, the result is the fold over the steady inputs plus *some*
    // subset of the flickering ones - never a slot that was not written
    for phase in 0..2u8 {
        let got = catch(|| nary_with_flicker(n, product, &ins, phase));
        ensure!(got.is_ok(), "C16/nary/panic", "arity {} pattern {:#010b} with flickering inputs: get() panicked: {}", n, mask, got.unwrap_err());
        let got = got.unwrap();
        let flick: Vec<usize> = (0..n).filter(|&i| ins[i].cat != 3).collect();
        let mut explained = false;
        for sub in 0..(1u32 << flick.len()) {
            let members: Vec<&c02::In> = (0..n).filter(|&i| ins[i].cat == 3 || flick.iter().position(|&f| f == i).map(|p| sub >> p & 1 == 1).unwrap_or(false)).map(|i| &ins[i]).collect();
            let want: Option<(i64, f32)> = if members.is_empty() { None } else { Some((members.iter().map(|p| p.t).max().unwrap(), if product { members.iter().map(|p| p.v).product::<f32>() } else { members.iter().map(|p| p.v).sum::<f32>() })) };
            if got == Ok(want) {
                explained = true;
                break;
            }
        }
        ensure!(explained, "C16/nary/unwritten-slot", "{} of arity {} where the inputs outside pattern {:#010b} flip between present and absent on every call (phase {}): got {:?}, which is not the fold over the steady inputs plus any subset of the flickering ones (a poisoned slot reads as ~3.39e38)", if product { "product" } else { "sum" }, n, mask, phase, got);
    }
    let k = present.len();
    Ok(CaseInfo::new(k >= 1 && k < n, hash_of(&(product, arity, mask))).class("n-ary scratch array"))
}
struct Flicker {
    calls: std::cell::Cell<u32>,
    phase: u8,
    steady: bool,
    datum: Datum<f32>,
}
impl Getter<f32, crate::sut::E> for Flicker {
    fn get(&self) -> Output<f32, crate::sut::E> {
        let c = self.calls.get();
        self.calls.set(c + 1);
        Ok(if self.steady || (c + self.phase as u32) % 2 == 0 { Some(self.datum) } else { None })
    }
}
impl Updatable<crate::sut::E> for Flicker {
    fn update(&mut self) -> NothingOrError<crate::sut::E> {
        Ok(())
    }
}
fn nary_flicker_n<const N: usize>(product: bool, ins: &[c02::In], phase: u8) -> Result<Option<(i64, f32)>, i32> {
    let inputs: [Reference<dyn Getter<f32, crate::sut::E>>; N] = core::array::from_fn(|i| to_dyn!(Getter<f32, crate::sut::E>, rc_ref_cell_reference(Flicker { calls: std::cell::Cell::new(0), phase, steady: ins[i].cat == 3, datum: Datum::new(Time(ins[i].t), ins[i].v) })));
    let out = if product { rrtk::streams::math::ProductStream::new(inputs).get() } else { rrtk::streams::math::SumStream::new(inputs).get() };
    match out {
        Ok(o) => Ok(o.map(|d| (d.time.0, d.value))),
        Err(e) => Err(crate::sut::err_code(e)),
    }
}
fn nary_with_flicker(n: usize, product: bool, ins: &[c02::In], phase: u8) -> Result<Option<(i64, f32)>, i32> {
    match n {
        1 => nary_flicker_n::<1>(product, ins, phase),
        2 => nary_flicker_n::<2>(product, ins, phase),
        3 => nary_flicker_n::<3>(product, ins, phase),
        4 => nary_flicker_n::<4>(product, ins, phase),
        5 => nary_flicker_n::<5>(product, ins, phase),
        6 => nary_flicker_n::<6>(product, ins, phase),
        7 => nary_flicker_n::<7>(product, ins, phase),
        _ => nary_flicker_n::<8>(product, ins, phase),
    }
}
fn check_terminal(own: bool, partner: bool, linked: bool, order: u8, from_partner: bool) -> CheckResult {
    let mut arena = Arena::new();
    let (a, b) = (arena.terminal(), arena.terminal());
    if linked {
        connect(a, b);
    }
    let (sa, sb) = (State::new_raw(3.0, 5.0, 7.0), State::new_raw(11.0, 13.0, 17.0));
    let (ta, tb) = match order % 5 {
        0 => (10, 20),
        1 => (20, 10),
        2 => (10, 10),
        3 => (i64::MAX, i64::MIN),
        _ => (i64::MIN, i64::MAX),
    };
    if own {
        set_state(a, Datum::new(Time(ta), sa));
    }
    if partner {
        set_state(b, Datum::new(Time(tb), sb));
    }
    let (reader, mine, theirs) = if from_partner { (b, partner.then_some((tb, sb)), own.then_some((ta, sa))) } else { (a, own.then_some((ta, sa)), partner.then_some((tb, sb))) };
    let theirs = if linked { theirs } else { None };
    let got = catch(|| read_state(reader));
    ensure!(got.is_ok(), "C16/terminal/panic", "terminal state read panicked: {:?}", got);
    let want = match (mine, theirs) {
        (None, None) => None,
        (Some((t, s)), None) | (None, Some((t, s))) => Some(Datum::new(Time(t), s)),
        (Some((t1, _)), Some((t2, _))) => Some(Datum::new(Time(t1.max(t2)), State::new_raw(7.0, 9.0, 12.0))),
    };
    ensure!(got.clone().unwrap() == want, "C16/terminal/unwritten-slot", "terminal (own {}, partner {}, linked {}, timestamp order {}, read at the {} end): state read {:?}, expected {:?}", own, partner, linked, order, if from_partner { "partner's" } else { "own" }, got.unwrap(), want);
    Ok(CaseInfo::new(mine.is_some() != theirs.is_some() || order > 0, hash_of(&(own, partner, linked, order, from_partner))).class("terminal scratch array"))
}
fn check_axle(n: u8) -> CheckResult {
    let mut arena = Arena::new();
    let r = catch(|| {
        let mut dev = make_dev(&mut arena, &DevSpec::Axle(n));
        let mut problems: Vec<String> = Vec::new();
        for (i, t) in dev.terms.iter().enumerate() {
            if read_state(*t).is_some() || read_command(*t).is_some() || read_data(*t).is_some() || own_state(*t).is_some() || own_command(*t).is_some() {
                problems.push(format!("terminal {} of a fresh Axle<{}> is not empty", i, n));
            }
        }
        // every terminal is a distinct, usable object
        for (i, t) in dev.terms.iter().enumerate() {
            set_state(*t, Datum::new(Time(i as i64), State::new_raw((1u32 << i) as f32, 0.0, 0.0)));
        }
        for (i, t) in dev.terms.iter().enumerate() {
            match read_state(*t) {
                Some(d) if d.value.position == (1u32 << i) as f32 && d.time == Time(i as i64) => {}
                other => problems.push(format!("terminal {} of Axle<{}> reads {:?} after being set to 2^{}", i, n, other, i)),
            }
        }
        let upd = (dev.update)();
        if upd.is_err() {
            problems.push(format!("update failed: {:?}", upd));
        }
        if n > 0 {
            let mean = ((1u32 << n) - 1) as f32 / n as f32;
            for (i, t) in dev.terms.iter().enumerate() {
                match read_state(*t) {
                    Some(d) if ((d.value.position - mean).abs() as f64) <= 2.0 * ulp32(mean as f64) => {}
                    other => problems.push(format!("terminal {} of Axle<{}> reads {:?} after update, expected the mean {}", i, n, other, mean)),
                }
            }
        }
        drop(dev);
        problems
    });
    match r {
        Err(m) => Err(Violation::new("C16/axle/panic", format!("Axle::<{}>::new() / use of its terminals panicked: {}", n, m))),
        Ok(p) => {
            ensure!(p.is_empty(), "C16/axle/garbage-terminal", "{}", p.join("; "));
            Ok(CaseInfo::new(n >= 1, hash_of(&("axle", n))).class("axle constructor array"))
        }
    }
}

/// addresses only; the returned reference is never dereferenced
fn check_axle_index(n: u8, index: u64) -> CheckResult {
    use rrtk::devices::Axle;
    let idx = index as usize;
    // (address returned or panic message, address of the axle, its size, address of slot 0 if any)
    macro_rules! go {
        ($($k:literal),*) => {
            match n {
                $($k => {
                    let a = Axle::<$k, E>::new();
                    let base = &a as *const _ as usize;
                    let size = core::mem::size_of_val(&a);
                    let slot0 = if $k > 0 { Some(a.get_terminal(0) as *const _ as usize) } else { None };
                    (catch(|| a.get_terminal(idx) as *const _ as usize), base, size, slot0)
                })*
                _ => return Ok(CaseInfo::new(false, 0)),
            }
        };
    }
    let (r, base, size, slot0) = go!(0, 1, 2, 3, 4, 5, 6, 7, 8);
    let stride = core::mem::size_of::<core::cell::RefCell<Terminal<'static, E>>>();
    let inside = |addr: usize| match slot0 {
        Some(s0) => addr >= s0 && addr < base + size && (addr - s0) % stride == 0 && (addr - s0) / stride < n as usize,
        None => false,
    };
    if idx < n as usize {
        match r {
            Err(m) => return Err(Violation::new("C16/axle/index-panic", format!("Axle::<{}>::get_terminal({}) panicked although the index is in range: {}", n, idx, m))),
            Ok(addr) => ensure!(Some(addr) == slot0.map(|s| s + idx * stride) && inside(addr), "C16/axle/index-wrong-slot", "Axle::<{}>::get_terminal({}) returned address {:#x}; the axle occupies {:#x}..{:#x} and its slot 0 is at {:?}", n, idx, addr, base, base + size, slot0),
        }
    } else if let Ok(addr) = r {
        ensure!(inside(addr), "C16/axle/index-out-of-range", "Axle::<{}>::get_terminal({}) returned a reference at {:#x}, outside the axle's own terminals ({:#x}..{:#x}): an index past the end must panic", n, idx, addr, base, base + size);
    }
    Ok(CaseInfo::new(idx >= n as usize, hash_of(&("axle-index", n, index))).class("axle terminal index"))
}

// ------------------------------------------------------------------------------------------------
// (b) probe programs
// ------------------------------------------------------------------------------------------------
#[derive(Clone, Debug)]
pub struct ProbeSrc {
    pub id: String,
    /// key under which an accepted probe is reported
    pub key: String,
    pub probe: String,
    pub control: Option<String>,
    /// error codes of which at least one must be among rustc's diagnostics when the probe is rejected; anything
    /// else means the probe template is broken (rejected for a reason unrelated to the property)
    pub expect: &'static [&'static str],
}
const PRELUDE: &str = r#"#![forbid(unsafe_code)]
#![allow(unused, dead_code)]
use rrtk::*;
use rrtk::devices::*;
use rrtk::devices::wrappers::*;
pub struct Act { data: SettableData<TerminalData, ()> }
impl Act { pub fn new() -> Self { Self { data: SettableData::new() } } }
impl Settable<TerminalData, ()> for Act {
    fn get_settable_data_ref(&self) -> &SettableData<TerminalData, ()> { &self.data }
    fn get_settable_data_mut(&mut self) -> &mut SettableData<TerminalData, ()> { &mut self.data }
    fn impl_set(&mut self, _: TerminalData) -> NothingOrError<()> { Ok(()) }
}
impl Updatable<()> for Act { fn update(&mut self) -> NothingOrError<()> { Ok(()) } }
pub struct Enc;
impl Getter<State, ()> for Enc { fn get(&self) -> Output<State, ()> { Ok(None) } }
impl Updatable<()> for Enc { fn update(&mut self) -> NothingOrError<()> { Ok(()) } }
pub struct Motor { data: SettableData<f32, ()> }
impl Motor { pub fn new() -> Self { Self { data: SettableData::new() } } }
impl Settable<f32, ()> for Motor {
    fn get_settable_data_ref(&self) -> &SettableData<f32, ()> { &self.data }
    fn get_settable_data_mut(&mut self) -> &mut SettableData<f32, ()> { &mut self.data }
    fn impl_set(&mut self, _: f32) -> NothingOrError<()> { Ok(()) }
}
impl Updatable<()> for Motor { fn update(&mut self) -> NothingOrError<()> { self.update_following_data() } }
fn kv() -> PositionDerivativeDependentPIDKValues {
    let k = PIDKValues::new(1.0, 0.0, 0.0);
    PositionDerivativeDependentPIDKValues::new(k, k, k)
}
fn read(t: &core::cell::RefCell<Terminal<'_, ()>>) -> Option<Datum<State>> {
    <Terminal<'_, ()> as Getter<State, ()>>::get(&t.borrow()).unwrap()
}
"#;

pub fn accessors() -> Vec<(&'static str, &'static str, &'static str)> {
    vec![
        ("Invert::get_terminal_1", "Invert::<()>::new()", "get_terminal_1()"),
        ("Invert::get_terminal_2", "Invert::<()>::new()", "get_terminal_2()"),
        ("GearTrain::get_terminal_1", "GearTrain::<()>::with_ratio_raw(2.0)", "get_terminal_1()"),
        ("GearTrain::get_terminal_2", "GearTrain::<()>::with_ratio_raw(2.0)", "get_terminal_2()"),
        ("Axle::get_terminal", "Axle::<3, ()>::new()", "get_terminal(1)"),
        ("Differential::get_side_1", "Differential::<()>::new()", "get_side_1()"),
        ("Differential::get_side_2", "Differential::<()>::new()", "get_side_2()"),
        ("Differential::get_sum", "Differential::<()>::new()", "get_sum()"),
        ("ActuatorWrapper::get_terminal", "ActuatorWrapper::new(Act::new())", "get_terminal()"),
        ("GetterStateDeviceWrapper::get_terminal", "GetterStateDeviceWrapper::new(Enc)", "get_terminal()"),
        ("PIDWrapper::get_terminal", "PIDWrapper::new(Motor::new(), Time(0), State::new_raw(0.0, 0.0, 0.0), Command::Position(0.0), kv())", "get_terminal()"),
    ]
}
/// (scenario name, statements that end the device's life or move it, statements that keep it alive instead)
fn scenarios() -> Vec<(&'static str, &'static str, &'static str)> {
    vec![
        ("drop-then-use", "drop(d);", "let keep = &d;"),
        ("move-into-box-then-use", "let moved = Box::new(d);", "let keep = &d;"),
        ("move-to-binding-then-use", "let moved = d;", "let keep = &d;"),
        ("move-into-vec-then-use", "let mut v = Vec::new(); v.push(d);", "let keep = &d;"),
    ]
}
fn uses() -> Vec<(&'static str, &'static str)> {
    vec![("read", "read(t)"), ("connect", "{ let other = Terminal::<()>::new(); connect(t, &other); read(&other) }")]
}

const BORROWCK: &[&str] = &["E0505", "E0597", "E0716", "E0499", "E0502", "E0506"];
pub fn probes() -> Vec<ProbeSrc> {
    let mut v = Vec::new();
    for (aname, ctor, call) in accessors() {
        for (sname, kill, keep) in scenarios() {
            for (uname, usage) in uses() {
                let body = |middle: &str| format!("{}pub fn probe() -> Option<Datum<State>> {{\n    let d = {};\n    let t = d.{};\n    {}\n    {}\n}}\n", PRELUDE, ctor, call, middle, usage);
                v.push(ProbeSrc { id: format!("{}/{}/{}", aname, sname, uname), key: format!("C16/lifetime/{}/{}", aname, sname), probe: body(kill), control: Some(body(keep)), expect: BORROWCK });
            }
        }
        // the reference escapes the device's scope
        let probe = format!("{}pub fn probe() -> Option<Datum<State>> {{\n    let t;\n    {{\n        let d = {};\n        t = d.{};\n    }}\n    read(t)\n}}\n", PRELUDE, ctor, call);
        let control = format!("{}pub fn probe() -> Option<Datum<State>> {{\n    let t;\n    let d = {};\n    {{\n        t = d.{};\n    }}\n    read(t)\n}}\n", PRELUDE, ctor, call);
        v.push(ProbeSrc { id: format!("{}/escape-scope/read", aname), key: format!("C16/lifetime/{}/escape-scope", aname), probe, control: Some(control), expect: BORROWCK });
        // connect to a longer-lived terminal, then drop the device: the survivor's link dangles
        let probe = format!("{}pub fn probe() -> Option<Datum<State>> {{\n    let ext = Terminal::<()>::new();\n    {{\n        let d = {};\n        connect(d.{}, &ext);\n    }}\n    read(&ext)\n}}\n", PRELUDE, ctor, call);
        let control = format!("{}pub fn probe() -> Option<Datum<State>> {{\n    let ext = Terminal::<()>::new();\n    let d = {};\n    {{\n        connect(d.{}, &ext);\n    }}\n    read(&ext)\n}}\n", PRELUDE, ctor, call);
        v.push(ProbeSrc { id: format!("{}/connect-survivor-then-drop/read", aname), key: format!("C16/lifetime/{}/connect-survivor-then-drop", aname), probe, control: Some(control), expect: BORROWCK });
    }
    // dangling borrows / References without `unsafe`
    let simple = |id: &str, key: &str, body: &str, control: Option<&str>| ProbeSrc { id: id.to_string(), key: key.to_string(), probe: format!("{}{}", PRELUDE, body), control: control.map(|c| format!("{}{}", PRELUDE, c)), expect: &[] };
    v.push(simple(
        "Borrow::Ptr/construct-dangling",
        "C16/lifetime/Borrow::Ptr/construct-in-safe-code",
        "pub fn probe() -> i32 {\n    let b: reference::Borrow<'static, i32> = { let x = 5i32; reference::Borrow::Ptr(&x as *const i32, core::marker::PhantomData) };\n    *b\n}\n",
        Some("pub fn probe() -> i32 {\n    let r = rc_ref_cell_reference(5i32);\n    let b: reference::Borrow<'_, i32> = r.borrow();\n    *b\n}\n"),
    ));
    v.push(simple(
        "BorrowMut::Ptr/construct-dangling",
        "C16/lifetime/BorrowMut::Ptr/construct-in-safe-code",
        "pub fn probe() -> i32 {\n    let mut b: reference::BorrowMut<'static, i32> = { let mut x = 5i32; reference::BorrowMut::Ptr(&mut x as *mut i32, core::marker::PhantomData) };\n    *b = 6;\n    *b\n}\n",
        Some("pub fn probe() -> i32 {\n    let r = rc_ref_cell_reference(5i32);\n    let mut b: reference::BorrowMut<'_, i32> = r.borrow_mut();\n    *b = 6;\n    *b\n}\n"),
    ));
    v.push(simple("Reference::from_ptr/outside-unsafe", "C16/lifetime/Reference::from_ptr/callable-in-safe-code", "pub fn probe() -> i32 {\n    let r = { let mut x = 5i32; Reference::from_ptr(&mut x as *mut i32) };\n    let out = *r.borrow();\n    out\n}\n", None));
    v.push(simple("Reference::from_ptr_rw_lock/outside-unsafe", "C16/lifetime/Reference::from_ptr_rw_lock/callable-in-safe-code", "pub fn probe() -> i32 {\n    let r = { let x = std::sync::RwLock::new(5i32); Reference::from_ptr_rw_lock(&x as *const std::sync::RwLock<i32>) };\n    let out = *r.borrow();\n    out\n}\n", None));
    v.push(simple("Reference::from_ptr_mutex/outside-unsafe", "C16/lifetime/Reference::from_ptr_mutex/callable-in-safe-code", "pub fn probe() -> i32 {\n    let r = { let x = std::sync::Mutex::new(5i32); Reference::from_ptr_mutex(&x as *const std::sync::Mutex<i32>) };\n    let out = *r.borrow();\n    out\n}\n", None));
    v.push(simple("ReferenceUnsafe::Ptr/borrow-outside-unsafe", "C16/lifetime/ReferenceUnsafe::borrow/callable-in-safe-code", "pub fn probe() -> i32 {\n    let r = { let mut x = 5i32; reference::ReferenceUnsafe::Ptr(&mut x as *mut i32) };\n    let out = *r.borrow();\n    out\n}\n", None));
    v.push(simple("ReferenceUnsafe::Ptr/into-Reference", "C16/lifetime/ReferenceUnsafe/convertible-to-Reference", "pub fn probe() -> i32 {\n    let r: Reference<i32> = { let mut x = 5i32; reference::ReferenceUnsafe::Ptr(&mut x as *mut i32).into() };\n    let out = *r.borrow();\n    out\n}\n", None));
    v.push(simple(
        "to_dyn/duck-typed-into_inner",
        "C16/lifetime/to_dyn/accepts-any-into_inner",
        "pub struct Fake(*mut i32);\nimpl Fake {\n    pub fn into_inner(self) -> reference::ReferenceUnsafe<i32> {\n        reference::ReferenceUnsafe::Ptr(self.0)\n    }\n}\npub trait Val {\n    fn v(&self) -> i32;\n}\nimpl Val for i32 {\n    fn v(&self) -> i32 {\n        *self\n    }\n}\npub fn probe() -> i32 {\n    let r: Reference<dyn Val> = { let mut x = 5i32; to_dyn!(Val, Fake(&mut x as *mut i32)) };\n    let out = r.borrow().v();\n    out\n}\n",
        Some("pub trait Val {\n    fn v(&self) -> i32;\n}\nimpl Val for i32 {\n    fn v(&self) -> i32 {\n        *self\n    }\n}\npub fn probe() -> i32 {\n    let r: Reference<dyn Val> = to_dyn!(Val, rc_ref_cell_reference(5i32));\n    let out = r.borrow().v();\n    out\n}\n"),
    ));
    // the macro vouches (in its own unsafe block) for whatever pointer comes out of its argument: only a real Reference may get in
    v.push(simple(
        "to_dyn/bare-ReferenceUnsafe-argument",
        "C16/lifetime/to_dyn/accepts-ReferenceUnsafe",
        "pub trait Val {\n    fn v(&self) -> i32;\n}\nimpl Val for i32 {\n    fn v(&self) -> i32 {\n        *self\n    }\n}\npub fn probe() -> i32 {\n    let r: Reference<dyn Val> = { let mut x = 5i32; to_dyn!(Val, reference::ReferenceUnsafe::Ptr(&mut x as *mut i32)) };\n    let out = r.borrow().v();\n    out\n}\n",
        Some("pub trait Val {\n    fn v(&self) -> i32;\n}\nimpl Val for i32 {\n    fn v(&self) -> i32 {\n        *self\n    }\n}\npub fn probe() -> i32 {\n    let r: Reference<dyn Val> = to_dyn!(Val, rc_ref_cell_reference(5i32));\n    let out = r.borrow().v();\n    out\n}\n"),
    ));
    // the static-making macros take an initialiser, never the name of something that already exists (a local, say)
    v.push(simple("static_reference/names-a-local", "C16/lifetime/static_reference/accepts-a-local-name", "pub fn probe() -> i32 {\n    let r = { let mut x = 5i32; static_reference!(x) };\n    let out = *r.borrow();\n    out\n}\n", Some("pub fn probe() -> i32 {\n    let r = static_reference!(i32, 5);\n    let out = *r.borrow();\n    out\n}\n")));
    // no safe conversion from a plain reference into a Borrow / BorrowMut with a lifetime of the caller's choosing
    v.push(simple("Borrow/from-plain-reference", "C16/lifetime/Borrow/from-reference-unbound", "pub fn probe() -> reference::Borrow<'static, i32> {\n    let l = 5i32;\n    reference::Borrow::from(&l)\n}\n", None));
    v.push(simple("BorrowMut/from-plain-reference", "C16/lifetime/BorrowMut/from-reference-unbound", "pub fn probe() -> reference::BorrowMut<'static, i32> {\n    let mut l = 5i32;\n    reference::BorrowMut::from(&mut l)\n}\n", None));
    // no safe way to turn a borrow of (part of) something into a free-standing Reference: a projection or a conversion from a
    // plain reference would let the result outlive its target
    v.push(simple("Reference/safe-projection-map", "C16/lifetime/Reference/safe-projection", "pub fn probe() -> i32 {\n    let part = { let whole = rc_ref_cell_reference((5i32, 6i32)); whole.map(|w| &mut w.0) };\n    let out = *part.borrow();\n    out\n}\n", None));
    v.push(simple("Reference/safe-from-mut-reference", "C16/lifetime/Reference/safe-from-reference", "pub fn probe() -> i32 {\n    let r: Reference<i32> = { let mut x = 5i32; Reference::from(&mut x) };\n    let out = *r.borrow();\n    out\n}\n", None));
    v.push(simple("Reference/safe-from-raw-pointer", "C16/lifetime/Reference/safe-from-pointer", "pub fn probe() -> i32 {\n    let r: Reference<i32> = { let mut x = 5i32; Reference::from(&mut x as *mut i32) };\n    let out = *r.borrow();\n    out\n}\n", None));
    // the raw-pointer variants of ReferenceUnsafe are public, so the wrapper's field is what keeps safe code from wrapping one
    v.push(simple("Reference/tuple-constructor", "C16/lifetime/Reference/public-field", "pub fn probe() -> i32 {\n    let r = { let mut x = 5i32; Reference(reference::ReferenceUnsafe::Ptr(&mut x as *mut i32)) };\n    let out = *r.borrow();\n    out\n}\n", None));
    v.push(simple("Reference/field-assignment", "C16/lifetime/Reference/public-field", "pub fn probe() -> i32 {\n    let mut r = rc_ref_cell_reference(5i32);\n    {\n        let mut x = 6i32;\n        r.0 = reference::ReferenceUnsafe::Ptr(&mut x as *mut i32);\n    }\n    let out = *r.borrow();\n    out\n}\n", None));
    // an unsafe operation written inside a macro argument must still need the caller's own `unsafe`
    v.push(simple(
        "to_dyn/unsafe-call-in-argument",
        "C16/lifetime/to_dyn/argument-in-unsafe-context",
        "pub trait Val {\n    fn v(&self) -> i32;\n}\nimpl Val for i32 {\n    fn v(&self) -> i32 {\n        *self\n    }\n}\npub fn probe() -> i32 {\n    let r: Reference<dyn Val> = { let mut x = 5i32; to_dyn!(Val, Reference::from_ptr(&mut x as *mut i32)) };\n    let out = r.borrow().v();\n    out\n}\n",
        None,
    ));
    v.push(simple("static_reference/unsafe-call-in-initialiser", "C16/lifetime/static_reference/argument-in-unsafe-context", "pub fn probe() -> i32 {\n    let r = static_reference!(i32, core::mem::zeroed::<i32>());\n    let out = *r.borrow();\n    out\n}\n", None));
    v.push(simple("static_rw_lock_reference/unsafe-call-in-initialiser", "C16/lifetime/static_rw_lock_reference/argument-in-unsafe-context", "pub fn probe() -> i32 {\n    let r = static_rw_lock_reference!(i32, core::mem::zeroed::<i32>());\n    let out = *r.borrow();\n    out\n}\n", None));
    v.push(simple("static_mutex_reference/unsafe-call-in-initialiser", "C16/lifetime/static_mutex_reference/argument-in-unsafe-context", "pub fn probe() -> i32 {\n    let r = static_mutex_reference!(i32, core::mem::zeroed::<i32>());\n    let out = *r.borrow();\n    out\n}\n", None));
    v.push(simple("static_reference/non-static-initialiser", "C16/lifetime/static_reference/local-initialiser", "pub fn probe() -> i32 {\n    let x = 5i32;\n    let r = static_reference!(i32, x);\n    let out = *r.borrow();\n    out\n}\n", None));
    v.push(simple("rc_ref_cell_reference/borrow-outlives-reference", "C16/lifetime/Reference::borrow/outlives-reference", "pub fn probe() -> i32 {\n    let b = { let r = rc_ref_cell_reference(5i32); r.borrow() };\n    *b\n}\n", Some("pub fn probe() -> i32 {\n    let r = rc_ref_cell_reference(5i32);\n    let b = r.borrow();\n    *b\n}\n")));
    v.push(simple("GetterFromHistory/history-outlived", "C16/lifetime/GetterFromHistory/history-outlived", "pub fn probe() -> Output<Command, ()> {\n    let clock = rc_ref_cell_reference(Time(1));\n    let g = { let mut mp = MotionProfile::new(State::new_raw(0.0,0.0,0.0), State::new_raw(3.0,0.0,0.0), Quantity::new(0.1, MILLIMETER_PER_SECOND), Quantity::new(0.01, MILLIMETER_PER_SECOND_SQUARED)); GetterFromHistory::new_no_delta(&mut mp, clock.clone()) };\n    g.get()\n}\n", Some("pub fn probe() -> Output<Command, ()> {\n    let clock = rc_ref_cell_reference(Time(1));\n    let mut mp = MotionProfile::new(State::new_raw(0.0,0.0,0.0), State::new_raw(3.0,0.0,0.0), Quantity::new(0.1, MILLIMETER_PER_SECOND), Quantity::new(0.01, MILLIMETER_PER_SECOND_SQUARED));\n    let g = GetterFromHistory::new_no_delta(&mut mp, clock.clone());\n    g.get()\n}\n")));
    v.push(simple("Terminal/connect-then-drop-one", "C16/lifetime/connect/partner-dropped", "pub fn probe() -> Option<Datum<State>> {\n    let a = Terminal::<()>::new();\n    {\n        let b = Terminal::<()>::new();\n        connect(&a, &b);\n    }\n    read(&a)\n}\n", Some("pub fn probe() -> Option<Datum<State>> {\n    let a = Terminal::<()>::new();\n    let b = Terminal::<()>::new();\n    {\n        connect(&a, &b);\n    }\n    read(&a)\n}\n")));
    for p in v.iter_mut() {
        if p.expect.is_empty() {
            p.expect = match p.id.as_str() {
                "Borrow::Ptr/construct-dangling" | "BorrowMut::Ptr/construct-dangling" => &["E0603", "E0639"],
                "to_dyn/unsafe-call-in-argument" | "static_reference/unsafe-call-in-initialiser" | "static_rw_lock_reference/unsafe-call-in-initialiser" | "static_mutex_reference/unsafe-call-in-initialiser" | "Reference::from_ptr/outside-unsafe" | "Reference::from_ptr_rw_lock/outside-unsafe" | "Reference::from_ptr_mutex/outside-unsafe" | "ReferenceUnsafe::Ptr/borrow-outside-unsafe" => &["E0133"],
                "ReferenceUnsafe::Ptr/into-Reference" => &["E0277"],
                "static_reference/non-static-initialiser" => &["E0435"],
                "Reference/tuple-constructor" | "Reference/field-assignment" => &["E0423", "E0603", "E0616", "E0532"],
                "static_reference/names-a-local" => &["unexpected end of macro invocation", "no rules expected", "E0435", "E0308"],
                "Borrow/from-plain-reference" | "BorrowMut/from-plain-reference" => &["E0277", "E0308", "E0515", "E0597"],
                // any rejection by the type system counts (mismatched types, unsatisfied trait bound, no such method)
                "to_dyn/duck-typed-into_inner" | "to_dyn/bare-ReferenceUnsafe-argument" | "Reference/safe-projection-map" | "Reference/safe-from-mut-reference" | "Reference/safe-from-raw-pointer" => &["E0308", "E0277", "E0599"],
                _ => BORROWCK,
            };
        }
    }
    v
}

#[derive(Clone, Debug)]
pub struct Outcome {
    pub accepted: bool,
    pub diagnostics: String,
}
struct ProbeResults {
    results: HashMap<(String, bool), Outcome>,
    error: Option<String>,
}
static RESULTS: OnceLock<ProbeResults> = OnceLock::new();

fn probes_root() -> PathBuf {
    verif_root().join("work").join("probes")
}
/// cargo-check a stub crate against the live /repo (default features + devices) and return (path of rrtk's .rmeta,
/// its deps directory). Shared with C17's calling-crate probes.
pub fn rrtk_rmeta() -> Result<(String, PathBuf), String> {
    static CACHE: std::sync::Mutex<Option<Result<(String, PathBuf), String>>> = std::sync::Mutex::new(None);
    let mut guard = CACHE.lock().unwrap_or_else(|e| e.into_inner());
    if let Some(r) = guard.as_ref() {
        return r.clone();
    }
    let r = rrtk_rmeta_uncached();
    *guard = Some(r.clone());
    r
}
fn rrtk_rmeta_uncached() -> Result<(String, PathBuf), String> {
    let root = probes_root();
    let base = root.join("base");
    let target = verif_root().join("work").join("target-probes");
    let _ = std::fs::create_dir_all(base.join("src"));
    let _ = std::fs::write(base.join("Cargo.toml"), "[package]\nname = \"probe_base\"\nversion = \"0.1.0\"\nedition = \"2021\"\n[dependencies]\nrrtk = { path = \"REPO\", features = [\"devices\"] }\n[workspace]\n".replace("REPO", &repo_root()));
    let _ = std::fs::write(base.join("src/lib.rs"), "pub use rrtk;\n");
    let out = Proc::new("cargo").args(["check", "--offline", "--quiet", "--message-format=json", "--manifest-path"]).arg(base.join("Cargo.toml")).arg("--target-dir").arg(&target).env_remove("RUSTFLAGS").output();
    let out = match out {
        Ok(o) => o,
        Err(e) => return Err(format!("cannot run cargo check: {}", e)),
    };
    if !out.status.success() {
        return Err(format!("cargo check of the probe base crate failed: {}", String::from_utf8_lossy(&out.stderr)));
    }
    // find rrtk's rmeta among the artifacts
    let mut rmeta: Option<String> = None;
    for line in String::from_utf8_lossy(&out.stdout).lines() {
        if let Ok(v) = serde_json::from_str::<serde_json::Value>(line) {
            if v["reason"] == "compiler-artifact" && v["target"]["name"] == "rrtk" {
                if let Some(files) = v["filenames"].as_array() {
                    for f in files {
                        if let Some(f) = f.as_str() {
                            if f.ends_with(".rmeta") {
                                rmeta = Some(f.to_string());
                            }
                        }
                    }
                }
            }
        }
    }
    let Some(rmeta) = rmeta else { return Err("rrtk's .rmeta not found among cargo's artifacts".into()) };
    let deps = Path::new(&rmeta).parent().unwrap().to_path_buf();
    Ok((rmeta, deps))
}
/// compile every probe and control with rustc individually (one crate each: exact attribution, no error masking)
fn compile_all() -> ProbeResults {
    let root = probes_root();
    let fail = |m: String| ProbeResults { results: HashMap::new(), error: Some(m) };
    let (rmeta, deps) = match rrtk_rmeta() {
        Ok(x) => x,
        Err(m) => return fail(m),
    };
    let src = root.join("src");
    let outdir = root.join("out");
    let _ = std::fs::remove_dir_all(&src);
    let _ = std::fs::create_dir_all(&src);
    let _ = std::fs::create_dir_all(&outdir);
    let mut jobs: Vec<(String, bool, PathBuf)> = Vec::new();
    for (i, p) in probes().iter().enumerate() {
        let f = src.join(format!("p{:03}.rs", i));
        let _ = std::fs::write(&f, &p.probe);
        jobs.push((p.id.clone(), false, f));
        if let Some(c) = &p.control {
            let f = src.join(format!("c{:03}.rs", i));
            let _ = std::fs::write(&f, c);
            jobs.push((p.id.clone(), true, f));
        }
    }
    let results = std::sync::Mutex::new(HashMap::new());
    let next = std::sync::atomic::AtomicUsize::new(0);
    std::thread::scope(|sc| {
        for w in 0..16 {
            let (jobs, results, next, rmeta, deps, outdir) = (&jobs, &results, &next, &rmeta, &deps, &outdir);
            sc.spawn(move || loop {
                let j = next.fetch_add(1, std::sync::atomic::Ordering::SeqCst);
                if j >= jobs.len() {
                    break;
                }
                let (id, control, file) = &jobs[j];
                let o = Proc::new("rustc")
                    .args(["--edition=2021", "--crate-type=lib", "--emit=metadata", "--error-format=short", "--cap-lints=allow", "--cfg", "feature=\"alloc\"", "--cfg", "feature=\"std\""])
                    .arg("--crate-name")
                    .arg(format!("probe_{}_{}", w, j))
                    .arg("--out-dir")
                    .arg(outdir)
                    .arg("--extern")
                    .arg(format!("rrtk={}", rmeta))
                    .arg("-L")
                    .arg(format!("dependency={}", deps.display()))
                    .arg(file)
                    .output();
                let outcome = match o {
                    Ok(o) => Outcome { accepted: o.status.success(), diagnostics: String::from_utf8_lossy(&o.stderr).lines().filter(|l| l.contains("error")).take(12).collect::<Vec<_>>().join(" | ") },
                    Err(e) => Outcome { accepted: false, diagnostics: format!("cannot run rustc: {}", e) },
                };
                results.lock().unwrap().insert((id.clone(), *control), outcome);
            });
        }
    });
    let _ = std::fs::remove_dir_all(&outdir);
    ProbeResults { results: results.into_inner().unwrap(), error: None }
}
fn results() -> &'static ProbeResults {
    RESULTS.get_or_init(compile_all)
}

fn check_probe(id: &str, control: bool) -> CheckResult {
    let r = results();
    if let Some(e) = &r.error {
        eprintln!("INFRASTRUCTURE: {}", e);
        std::process::exit(2);
    }
    let p = probes().into_iter().find(|p| p.id == id);
    let Some(p) = p else {
        eprintln!("INFRASTRUCTURE: unknown probe id {}", id);
        std::process::exit(2);
    };
    let Some(o) = r.results.get(&(id.to_string(), control)) else {
        // a probe without a control twin
        return Ok(CaseInfo::new(false, 0));
    };
    if control {
        if !o.accepted {
            eprintln!("INFRASTRUCTURE: the control twin of probe {} does not compile ({}); the probe template is broken, not rrtk", id, o.diagnostics);
            std::process::exit(2);
        }
        return Ok(CaseInfo::new(false, hash_of(&(id, true))).class("control twin compiles"));
    }
    ensure!(
        !o.accepted,
        p.key.clone(),
        "the safe (#![forbid(unsafe_code)]) probe program `{}` type-checks although it obtains a reference/borrow/Reference that outlives its target; source: work/probes/src; program:\n{}",
        id,
        p.probe.replace(PRELUDE, "<prelude>\n")
    );
    if !p.expect.iter().any(|c| o.diagnostics.contains(c)) {
        eprintln!("INFRASTRUCTURE: probe {} is rejected, but not for the reason it was written for (expected one of {:?}): {}", id, p.expect, o.diagnostics);
        std::process::exit(2);
    }
    let has_control = p.control.is_some();
    Ok(CaseInfo::new(has_control, hash_of(&(id, false))).class("probe rejected by the compiler").class_if(o.diagnostics.contains("E0505") || o.diagnostics.contains("E0597") || o.diagnostics.contains("E0716"), "rejected by the borrow checker").class_if(o.diagnostics.contains("E0133"), "rejected: unsafe call outside unsafe"))
}

fn check_miri(max_arity: u8) -> CheckResult {
    let dir = verif_root().join("miri_c16");
    let out = Proc::new("cargo")
        .args(["+nightly", "miri", "run", "--offline", "--quiet", "--target-dir"])
        .arg(verif_root().join("work").join("target-miri"))
        .arg("--")
        .arg(max_arity.to_string())
        .current_dir(&dir)
        .env_remove("RUSTFLAGS")
        .env("MIRIFLAGS", "-Zmiri-strict-provenance")
        .output();
    let out = match out {
        Ok(o) => o,
        Err(e) => {
            eprintln!("INFRASTRUCTURE: cannot run cargo +nightly miri: {}", e);
            std::process::exit(2);
        }
    };
    let (so, se) = (String::from_utf8_lossy(&out.stdout).to_string(), String::from_utf8_lossy(&out.stderr).to_string());
    let cases = so.lines().find_map(|l| l.strip_prefix("MIRI-C16 cases=")).and_then(|n| n.trim().parse::<u64>().ok());
    if out.status.success() {
        if let Some(c) = cases {
            MIRI_CASES.store(c, std::sync::atomic::Ordering::SeqCst);
            return Ok(CaseInfo::new(true, hash_of(&("miri", max_arity))).class("Miri run of the scratch-array enumeration (hook off)"));
        }
    }
    let excerpt: String = se.lines().filter(|l| !l.trim().is_empty()).take(25).collect::<Vec<_>>().join("\n");
    if se.contains("Undefined Behavior") {
        return Err(Violation::new("C16/miri/undefined-behaviour", format!("Miri reports undefined behaviour in the scratch-array enumeration (safe API use only):\n{}", excerpt)));
    }
    if se.contains("panicked at") {
        return Err(Violation::new("C16/miri/wrong-result", format!("the scratch-array enumeration failed under Miri:\n{}", excerpt)));
    }
    eprintln!("INFRASTRUCTURE: cargo miri failed without a UB report:\n{}", excerpt);
    std::process::exit(2);
}
static MIRI_CASES: std::sync::atomic::AtomicU64 = std::sync::atomic::AtomicU64::new(0);

/// `rrtk-verif probes x`: list every probe with the compiler's verdict (used to maintain known_findings.json)
pub fn list_probes() -> i32 {
    let r = results();
    if let Some(e) = &r.error {
        eprintln!("{}", e);
        return 2;
    }
    for p in probes() {
        let o = &r.results[&(p.id.clone(), false)];
        let c = r.results.get(&(p.id.clone(), true)).map(|c| if c.accepted { "control-ok" } else { "CONTROL-BROKEN" }).unwrap_or("no-control");
        println!("{}\t{}\t{}\t{}\t{}", if o.accepted { "ACCEPTED" } else { "rejected" }, c, p.key, p.id, o.diagnostics);
    }
    0
}

pub fn check(s: &Scenario) -> CheckResult {
    match s {
        Scenario::Nary { product, arity, mask, time_perm } => check_nary(*product, *arity, *mask, *time_perm),
        Scenario::TerminalRead { own, partner, linked, order, from_partner } => check_terminal(*own, *partner, *linked, *order, *from_partner),
        Scenario::AxleNew(n) => check_axle(*n),
        Scenario::AxleIndex { n, index } => check_axle_index(*n, *index),
        Scenario::LiveTarget(which) => {
            let r = match which % 7 {
                2 => crate::c17::statics(),
                v @ (0 | 1) => crate::c17::lock_held(v),
                v => crate::c17::lock_held(v - 1),
            };
            match r {
                Ok(()) => Ok(CaseInfo::new(true, hash_of(&("live-target", which % 7))).class("target cannot be replaced under a live borrow")),
                Err(v) => Err(Violation::new(format!("C16/lifetime/live-target/{}", v.key.trim_start_matches("C17/")), v.message)),
            }
        }
        Scenario::Probe { id, control } => check_probe(id, *control),
        Scenario::Miri { max_arity } => check_miri(*max_arity),
    }
}

pub struct C16;
impl Property for C16 {
    const ID: &'static str = "C16";
    const RULE: &'static str = "(a) exhaustive, with the cfg(rrtk_verif) hook that fills the four MaybeUninit scratch arrays with 0x7F bytes compiled in: n-ary sum and product of arity 1..8 x all 2^N present/absent patterns, each also with its absent inputs replaced by getters whose presence flips on every call (inputs 2^i / the i-th prime, so the exact result identifies the contributing subset) x 3 timestamp permutations, terminal state read x own/partner/linked combinations x 5 timestamp orders (partner newer, own newer, equal, the two extremes) x both ends, Axle::<N>::new() for N = 0..8 followed by use of every terminal, and Axle::<N>::get_terminal(i) for every in-range index and 12 indices past the end (in range: the i-th slot inside the object; past the end: a panic, never an address outside the axle); a Borrow / BorrowMut of an Arc<Mutex> / Arc<RwLock> Reference holds its lock while it lives and a static_* call site evaluated twice hands out the same untouched object (the target cannot be replaced or dropped under a live borrow); the same enumeration also runs as a plain program under `cargo +nightly miri run` without the hook (arity <= 5 quick, <= 8 thorough). (b) generated #![forbid(unsafe_code)] probe programs: 11 terminal accessors x {drop, move into Box, move to another binding, move into Vec, escape the scope, connect to a longer-lived terminal then drop} x {read through the reference, connect it}, plus probes that try to build a dangling Borrow / BorrowMut / Reference / ReferenceUnsafe or call the unsafe constructors outside unsafe; each probe is compiled by rustc as its own crate against the live rrtk; oracle = must be rejected; every probe's control twin (device kept alive) must compile. Non-trivial = a pattern with >= 1 absent and >= 1 present input / a probe whose control twin compiles; distinct = pattern or probe id.";
    type Scenario = Scenario;
    fn strategy(_tier: Tier) -> BoxedStrategy<Scenario> {
        Just(Scenario::AxleNew(0)).boxed()
    }
    fn cases(_tier: Tier) -> u32 {
        0
    }
    fn exhaustive(tier: Tier, sink: &mut dyn FnMut(Scenario)) -> Vec<String> {
        let mut n = 0u64;
        sink(Scenario::Miri { max_arity: tier.pick(5, 8) });
        for product in [false, true] {
            for arity in 1..=8u8 {
                for mask in 0..(1u16 << arity) {
                    for time_perm in 0..3u8 {
                        sink(Scenario::Nary { product, arity, mask: mask as u8, time_perm });
                        n += 1;
                    }
                }
            }
        }
        for own in [false, true] {
            for partner in [false, true] {
                for linked in [false, true] {
                    for order in 0..5u8 {
                        for from_partner in [false, true] {
                            sink(Scenario::TerminalRead { own, partner, linked, order, from_partner });
                            n += 1;
                        }
                    }
                }
            }
        }
        for k in 0..=8u8 {
            sink(Scenario::AxleNew(k));
            n += 1;
            for index in (0..k as u64 + 4).chain([16, 255, 256, 1 << 16, 1 << 32, u64::MAX / 64, u64::MAX / 2, u64::MAX]) {
                sink(Scenario::AxleIndex { n: k, index });
                n += 1;
            }
        }
        for which in 0..7u8 {
            sink(Scenario::LiveTarget(which));
            n += 1;
        }
        let ps = probes();
        for p in &ps {
            if p.control.is_some() {
                sink(Scenario::Probe { id: p.id.clone(), control: true });
            }
            sink(Scenario::Probe { id: p.id.clone(), control: false });
        }
        vec![format!("all 2^N patterns for arity 1..8 of sum and product x 3 time permutations, 80 terminal read combinations, Axle<0..8> construction and terminal indexing ({} cases)", n), format!("{} probe programs of the grammar (+ control twins), each compiled separately", ps.len())]
    }
    fn check(s: &Scenario) -> CheckResult {
        check(s)
    }
    fn assumptions() -> Vec<String> {
        vec![
            "part (b) covers the programs of the stated grammar only; it can refute, not prove, the claim over all safe programs".into(),
            "rustc's acceptance of a #![forbid(unsafe_code)] program is the oracle for 'obtainable without unsafe'; the Miri run in the thorough tier exhibits the resulting undefined behaviour for accepted probes".into(),
            "the poison hook makes a read of an unwritten slot visible as a wrong exact result; Miri (thorough) detects it without the hook".into(),
        ]
    }
    fn extra_coverage() -> std::collections::BTreeMap<String, serde_json::Value> {
        let mut m = std::collections::BTreeMap::new();
        m.insert("miri_cases_without_hook".into(), serde_json::json!(MIRI_CASES.load(std::sync::atomic::Ordering::SeqCst)));
        if let Some(r) = RESULTS.get() {
            let accepted: Vec<String> = r.results.iter().filter(|((_, c), o)| !*c && o.accepted).map(|((id, _), _)| id.clone()).collect();
            let rejected = r.results.iter().filter(|((_, c), o)| !*c && !o.accepted).count();
            let mut accepted = accepted;
            accepted.sort();
            m.insert("probes_rejected_by_compiler".into(), serde_json::json!(rejected));
            m.insert("probes_accepted_by_compiler".into(), serde_json::json!(accepted));
        }
        m
    }
}
