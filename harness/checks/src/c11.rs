//! C11 — CommandPID integrates its PID output 0, 1 or 2 times, by command kind.
use crate::common::*;
use crate::ensure;
use crate::rnum::{Headroom, R};
use crate::sut::*;
use proptest::prelude::*;
use rrtk::streams::control::CommandPID;
use rrtk::*;
use serde::{Deserialize, Serialize};

#[derive(Clone, Copy, Debug, Serialize, Deserialize, PartialEq)]
pub enum CEv {
    /// present state sample derived from a scalar, dt ns after the previous present sample
    P(f32, i64),
    A,
    E(u8),
    /// set(the current command)
    SetSame,
    /// set(same kind, this value)
    SetValue(f32),
    /// set(same kind, the value this many ulps away from the current one)
    SetNear(i8),
    /// set(kind, value)
    SetKind(u8, f32),
    /// set(this kind, the *same number* as the current command): only the kind changes
    SetKindOnly(u8),
    /// the followed command getter now returns (this kind, the same number as the current command)
    FollowKindOnly(u8),
    /// the followed command getter now returns this command / nothing
    Follow(u8, f32),
    FollowNone,
}
#[derive(Clone, Debug, Serialize, Deserialize)]
pub struct Scenario {
    pub k: [f32; 3],
    pub cmd_kind: u8,
    pub cmd_value: f32,
    pub follow: bool,
    pub t0: i64,
    pub events: Vec<CEv>,
}
static HEADROOM: Headroom = Headroom::new();

fn params(s: &Scenario) -> Params {
    Params { k: s.k, x: s.cmd_value, cmd_kind: s.cmd_kind, window: 1, unit: (0, 0) }
}
fn comp(v: f32, kind: u8) -> f32 {
    let st = state_of(v);
    match kind % 3 {
        0 => st.position,
        1 => st.velocity,
        _ => st.acceleration,
    }
}

fn run_real(s: &Scenario, events: &[CEv], times: &[i64]) -> (Vec<Obs>, Vec<Option<Result<(), i32>>>) {
    let p = params(s);
    let input = rc_ref_cell_reference(Scripted::<State>::new());
    let followed = rc_ref_cell_reference(Scripted::<Command>::new());
    let mut pid = CommandPID::new(input.clone(), command_of(&p), kvals_of(&p));
    if s.follow {
        pid.follow(to_dyn!(Getter<Command, E>, followed.clone()));
    }
    let mut cur = command_of(&p); // what the test believes the command is, for SetSame / SetValue
    let mut outs = Vec::new();
    let mut rets = Vec::new();
    for (i, ev) in events.iter().enumerate() {
        let mut ret = None;
        match ev {
            CEv::P(v, _) => {
                input.borrow_mut().cur = Ok(Some(Datum::new(Time(times[i]), state_of(*v))));
                if s.follow {
                    if let Ok(Some(d)) = followed.borrow().cur {
                        cur = d.value;
                    }
                }
                ret = Some(pid.update().map_err(err_code));
            }
            CEv::A => {
                input.borrow_mut().cur = Ok(None);
                if s.follow {
                    if let Ok(Some(d)) = followed.borrow().cur {
                        cur = d.value;
                    }
                }
                ret = Some(pid.update().map_err(err_code));
            }
            CEv::E(e) => {
                input.borrow_mut().cur = Err(mk_err(*e));
                if s.follow {
                    if let Ok(Some(d)) = followed.borrow().cur {
                        cur = d.value;
                    }
                }
                ret = Some(pid.update().map_err(err_code));
            }
            CEv::SetSame => {
                pid.set(cur).expect("set is infallible");
            }
            CEv::SetValue(v) => {
                cur = Command::new(PositionDerivative::from(cur), *v);
                pid.set(cur).expect("set is infallible");
            }
            CEv::SetNear(k) => {
                cur = Command::new(PositionDerivative::from(cur), gen::near(f32::from(cur), *k as i32));
                pid.set(cur).expect("set is infallible");
            }
            CEv::SetKind(k, v) => {
                cur = Command::new(pd(*k), *v);
                pid.set(cur).expect("set is infallible");
            }
            CEv::SetKindOnly(k) => {
                cur = Command::new(pd(*k), f32::from(cur));
                pid.set(cur).expect("set is infallible");
            }
            CEv::FollowKindOnly(k) => {
                followed.borrow_mut().cur = Ok(Some(Datum::new(Time(times[i]), Command::new(pd(*k), f32::from(cur)))));
            }
            CEv::Follow(k, v) => {
                followed.borrow_mut().cur = Ok(Some(Datum::new(Time(times[i]), Command::new(pd(*k), *v))));
            }
            CEv::FollowNone => {
                followed.borrow_mut().cur = Ok(None);
            }
        }
        rets.push(ret);
        outs.push(match pid.get() {
            Err(e) => Obs::Err(err_code(e)),
            Ok(None) => Obs::None,
            Ok(Some(d)) => Obs::Some(d.time.0, vec![d.value]),
        });
    }
    (outs, rets)
}

#[derive(Clone, Copy)]
struct Seg {
    n: usize,
    t: i64,
    e: R,
    u: R,
    e_int: R,
    u_int: R,
    u_int_int: R,
}
#[derive(Clone, Copy, PartialEq, Debug)]
enum ErrMode {
    No,
    /// must report Err(e)
    Strict(u8),
    /// Err(e) or absent are both covered by the statement
    Either(u8),
}

fn ctimes(t0: i64, events: &[CEv]) -> Vec<i64> {
    let mut t = t0;
    events
        .iter()
        .map(|e| {
            if let CEv::P(_, dt) = e {
                t += dt;
            }
            t
        })
        .collect()
}

pub fn check(s: &Scenario) -> CheckResult {
    let times = ctimes(s.t0, &s.events);
    let (outs, rets) = run_real(s, &s.events, &times);
    let p = params(s);
    // ----- reference -----
    let mut cmd: (u8, f32) = (s.cmd_kind % 3, s.cmd_value);
    let mut followed: Option<(u8, f32)> = None;
    let mut seg: Option<Seg> = None;
    let mut err = ErrMode::No;
    let mut longest_integrating_seg = 0usize;
    let mut change_then_three = false;
    let mut samples_since_change: Option<usize> = None;
    let set_cmd = |new: (u8, f32), cmd: &mut (u8, f32), seg: &mut Option<Seg>, err: &mut ErrMode, since: &mut Option<usize>| {
        if new.0 != cmd.0 || new.1 != cmd.1 {
            *cmd = new;
            *seg = None;
            if let ErrMode::Strict(e) | ErrMode::Either(e) = *err {
                *err = ErrMode::Either(e);
            }
            *since = Some(0);
        }
    };
    for (i, ev) in s.events.iter().enumerate() {
        let is_update = matches!(ev, CEv::P(..) | CEv::A | CEv::E(_));
        if is_update && s.follow {
            if let Some(f) = followed {
                set_cmd(f, &mut cmd, &mut seg, &mut err, &mut samples_since_change);
            }
        }
        match ev {
            CEv::SetSame => {}
            CEv::SetValue(v) => set_cmd((cmd.0, *v), &mut cmd, &mut seg, &mut err, &mut samples_since_change),
            CEv::SetNear(k) => set_cmd((cmd.0, gen::near(cmd.1, *k as i32)), &mut cmd, &mut seg, &mut err, &mut samples_since_change),
            CEv::SetKind(k, v) => set_cmd((*k % 3, *v), &mut cmd, &mut seg, &mut err, &mut samples_since_change),
            CEv::SetKindOnly(k) => set_cmd((*k % 3, cmd.1), &mut cmd, &mut seg, &mut err, &mut samples_since_change),
            CEv::FollowKindOnly(k) => followed = Some((*k % 3, cmd.1)),
            CEv::Follow(k, v) => followed = Some((*k % 3, *v)),
            CEv::FollowNone => followed = None,
            CEv::A => {
                ensure!(rets[i] == Some(Ok(())), "C11/absent-return", "event {}: absent input but update() returned {:?}", i, rets[i]);
                seg = None;
                if let ErrMode::Strict(e) | ErrMode::Either(e) = err {
                    err = ErrMode::Either(e);
                }
            }
            CEv::E(e) => {
                ensure!(rets[i] == Some(Err(exp_code(*e))), "C11/error-return", "event {}: input Err({}) but update() returned {:?}", i, e, rets[i]);
                seg = None;
                err = ErrMode::Strict(*e);
            }
            CEv::P(v, _) => {
                ensure!(rets[i] == Some(Ok(())), "C11/present-return", "event {}: present input but update() returned {:?}", i, rets[i]);
                err = ErrMode::No;
                let g = gains_for(&p, cmd.0).map(R::exact);
                let e = R::exact(cmd.1) - R::exact(comp(*v, cmd.0));
                let eval = |e: R, i: R, d: R| g[0] * e + g[1] * i + g[2] * d;
                seg = Some(match seg {
                    None => Seg { n: 1, t: times[i], e, u: eval(e, R::ZERO, R::ZERO), e_int: R::ZERO, u_int: R::ZERO, u_int_int: R::ZERO },
                    Some(p) => {
                        let dt = R::secs(times[i] - p.t);
                        let drv = (e - p.e) / dt;
                        let add = ((p.e + e) / R::c(2.0)) * dt;
                        let e_int = if p.n == 1 { add } else { p.e_int + add };
                        let u = eval(e, e_int, drv);
                        let u_add = ((p.u + u) / R::c(2.0)) * dt;
                        let u_int = if p.n == 1 { u_add } else { p.u_int + u_add };
                        let uu_add = ((p.u_int + u_int) / R::c(2.0)) * dt;
                        let u_int_int = if p.n == 1 { R::ZERO } else if p.n == 2 { uu_add } else { p.u_int_int + uu_add };
                        Seg { n: p.n + 1, t: times[i], e, u, e_int, u_int, u_int_int }
                    }
                });
                if cmd.0 != 0 {
                    longest_integrating_seg = longest_integrating_seg.max(seg.unwrap().n);
                }
                if let Some(c) = samples_since_change.as_mut() {
                    *c += 1;
                    if *c >= 3 {
                        change_then_three = true;
                    }
                }
            }
        }
        // expected observation
        let want: Option<(i64, R)> = seg.and_then(|sg| match cmd.0 {
            0 => Some((sg.t, sg.u)),
            1 => if sg.n >= 2 { Some((sg.t, sg.u_int)) } else { None },
            _ => if sg.n >= 3 { Some((sg.t, sg.u_int_int)) } else { None },
        });
        match err {
            ErrMode::Strict(e) => ensure!(outs[i] == Obs::Err(exp_code(e)), "C11/error-not-reported", "event {} ({:?}): the input error {} must be reported until the next present sample, get() = {:?}", i, ev, e, outs[i]),
            ErrMode::Either(e) => ensure!(outs[i] == Obs::Err(exp_code(e)) || outs[i] == Obs::None, "C11/after-error", "event {} ({:?}): expected Err({}) or absent, get() = {:?}", i, ev, e, outs[i]),
            ErrMode::No => match (&want, &outs[i]) {
                (None, Obs::None) => {}
                (None, o) => {
                    return Err(Violation::new("C11/present-too-early", format!("event {} ({:?}): get() = {:?} but a {:?} command is absent for its first {} samples after a start/reset (segment has {} samples); history {:?}", i, ev, o, pd(cmd.0), cmd.0, seg.map(|x| x.n).unwrap_or(0), &s.events[..=i])));
                }
                (Some((t, w)), Obs::Some(gt, gv)) => {
                    ensure!(gt == t, "C11/time", "event {}: output stamped {} but the newest sample is stamped {}", i, gt, t);
                    if w.is_finite() {
                        HEADROOM.observe(w.ratio(gv[0]));
                        ensure!(w.admits(gv[0], 4.0, 0.0), "C11/value", "event {} ({:?} command, sample #{} of its segment): output {:e}, reference {:e} (allowed deviation {:e}); gains {:?}; history {:?}", i, pd(cmd.0), seg.unwrap().n, gv[0], w.v, 4.0 * w.e, gains_for(&p, cmd.0), &s.events[..=i]);
                    }
                }
                (Some(_), o) => {
                    return Err(Violation::new("C11/missing", format!("event {} ({:?}): a {:?} command with {} samples in its segment must produce an output, get() = {:?}; history {:?}", i, ev, pd(cmd.0), seg.unwrap().n, o, &s.events[..=i])));
                }
            },
        }
    }
    // set(same) is a no-op: deleting those events changes nothing, exactly
    if s.events.iter().any(|e| *e == CEv::SetSame) {
        let keep: Vec<usize> = (0..s.events.len()).filter(|&i| s.events[i] != CEv::SetSame).collect();
        let ev2: Vec<CEv> = keep.iter().map(|&i| s.events[i]).collect();
        let t2: Vec<i64> = keep.iter().map(|&i| times[i]).collect();
        let (o2, _) = run_real(s, &ev2, &t2);
        for (j, &i) in keep.iter().enumerate() {
            ensure!(o2[j].same(&outs[i]), "C11/set-same-not-noop", "after event #{} get() = {:?}, but {:?} when the set(current command) calls are removed from the history", i, outs[i], o2[j]);
        }
        // and directly: get() right after set(same) equals get() right before
        for i in 1..s.events.len() {
            if s.events[i] == CEv::SetSame {
                ensure!(outs[i].same(&outs[i - 1]), "C11/set-same-changes-output", "event {}: set(current command) changed get() from {:?} to {:?}", i, outs[i - 1], outs[i]);
            }
        }
    }
    let kinds: Vec<u8> = s.events.iter().map(|e| match e { CEv::P(..) => 0, CEv::A => 1, CEv::E(_) => 2, CEv::SetSame => 3, CEv::SetValue(_) => 4, CEv::SetNear(_) => 12, CEv::SetKind(k, _) => 5 + k % 3, CEv::Follow(k, _) => 8 + k % 3, CEv::FollowNone => 11, CEv::SetKindOnly(k) => 13 + k % 3, CEv::FollowKindOnly(k) => 16 + k % 3 }).collect();
    let nontrivial = longest_integrating_seg >= 4 || change_then_three;
    Ok(CaseInfo::new(nontrivial, hash_of(&(kinds, s.cmd_kind % 3, s.follow, s.k.map(f32::to_bits))))
        .class_if(longest_integrating_seg >= 4, "velocity/acceleration segment >= 4 samples")
        .class_if(change_then_three, "command change followed by >= 3 samples")
        .class_if(s.follow, "following a command getter"))
}

fn cev() -> BoxedStrategy<CEv> {
    prop_oneof![
        15 => (gen::moderate(), dt_pos()).prop_map(|(v, dt)| CEv::P(v, dt)),
        1 => (gen::moderate(), proptest::sample::select(vec![1i64, 2, 3, 50, 100, 119, 120, 121, 500, 999])).prop_map(|(v, dt)| CEv::P(v, dt)),
        1 => Just(CEv::A),
        1 => (0u8..=2).prop_map(CEv::E),
        1 => Just(CEv::SetSame),
        1 => gen::moderate().prop_map(CEv::SetValue),
        1 => (-2i8..=2).prop_map(CEv::SetNear),
        1 => (0u8..3, gen::moderate()).prop_map(|(k, v)| CEv::SetKind(k, v)),
        1 => (0u8..3).prop_map(CEv::SetKindOnly),
        1 => (0u8..3).prop_map(CEv::FollowKindOnly),
        1 => (0u8..3, gen::moderate()).prop_map(|(k, v)| CEv::Follow(k, v)),
        1 => Just(CEv::FollowNone),
    ]
    .boxed()
}

pub struct C11;
impl Property for C11 {
    const ID: &'static str = "C11";
    const RULE: &'static str = "random gains (finite, zeros included; rotated per command kind so a wrong-kind selection is visible), initial command of any kind, optional following of a scripted command getter, and histories of 0..48 events from {present state sample with strictly increasing time (dt 1 us..3 h), absent, Err(1|2), set(current command), set(same kind other value), set(other kind), followed-command change, followed-command absent}. Oracle: reference PID law + 0/1/2 trapezoidal integrations in f64 with a running f32 error bound (|out - ref| <= 4e), absent for exactly the first 0/1/2 samples of a segment, update() return values, error reporting until the next present sample (in windows where the statement's clauses overlap - error followed by absent or by set(different) - Err or absent are both accepted), exact no-op-ness of set(same) by history deletion. Non-trivial = a velocity/acceleration segment of >= 4 samples or a command change followed by >= 3 samples; distinct = (event kinds, initial kind, following, gains).";
    type Scenario = Scenario;
    fn strategy(_tier: Tier) -> BoxedStrategy<Scenario> {
        ([gen::wide(), gen::wide(), gen::wide()], 0u8..3, gen::moderate(), proptest::bool::weighted(0.3), t0_strategy(), proptest::collection::vec(cev(), 0..=48))
            .prop_map(|(k, cmd_kind, cmd_value, follow, t0, events)| Scenario { k, cmd_kind, cmd_value, follow, t0, events })
            .boxed()
    }
    fn cases(tier: Tier) -> u32 {
        tier.pick(30_000, 150_000)
    }
    fn check(s: &Scenario) -> CheckResult {
        check(s)
    }
    fn valid(s: &Scenario) -> bool {
        s.k.iter().all(|x| dom::wide(*x)) && s.cmd_kind < 3 && dom::moderate(s.cmd_value) && dom::t0_span(s.t0) && s.events.len() <= 48 && s.events.iter().all(|e| match e {
            CEv::P(v, dt) => dom::moderate(*v) && (1..=10_800_000_000_000).contains(dt),
            CEv::E(c) => *c <= 2,
            CEv::SetValue(v) | CEv::SetKind(_, v) | CEv::Follow(_, v) => dom::moderate(*v),
            _ => true,
        })
    }
    fn extra_coverage() -> std::collections::BTreeMap<String, serde_json::Value> {
        let mut m = std::collections::BTreeMap::new();
        m.insert("max_observed_error_over_bound".into(), serde_json::json!(HEADROOM.get()));
        m.insert("tolerance".into(), "|out - reference| <= 4 x running f32 error bound of the same data flow".into());
        m
    }
    fn assumptions() -> Vec<String> {
        vec!["the followed command getter is present or absent, never erroring (the statement does not cover that)".into(), "timestamps strictly increase; values finite and moderate".into()]
    }
}
