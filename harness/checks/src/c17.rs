//! C17 — a Reference, its clones and its to_dyn conversion all denote one shared object.
use crate::common::*;
use crate::ensure;
use crate::ref_interp::{self, HOp, Variant, VARIANTS};
use proptest::prelude::*;
use rrtk::*;
use serde::{Deserialize, Serialize};
use std::io::Write;
use std::process::{Command as Proc, Stdio};
use std::sync::{Arc, Mutex, RwLock};

#[derive(Clone, Debug, Serialize, Deserialize, PartialEq)]
pub enum SOp {
    Clone(u8),
    ToDyn(u8),
    Read(u8),
    Write(u8, i64),
    Drop(u8),
}
#[derive(Clone, Debug, Serialize, Deserialize, PartialEq)]
pub struct Seq {
    /// index into the six variants
    pub variant: u8,
    pub ops: Vec<SOp>,
}
#[derive(Clone, Debug, Serialize, Deserialize)]
pub enum Scenario {
    /// run in the harness crate itself (declares features `alloc` and `std`)
    InProcess(Seq),
    /// run by the downstream binary built with (`true`) / without (`false`) features named alloc/std
    /// `rrtk_build`: 0 = rrtk with std (the `downstream` crate), 1 = rrtk with alloc only, 2 = rrtk without any feature
    /// (the `ds_variants` crate, which declares no features named alloc/std; `with_features` is ignored for 1 and 2).
    /// Sequences are mapped onto the variants that exist in the build.
    Downstream {
        with_features: bool,
        seqs: Vec<Seq>,
        #[serde(default)]
        rrtk_build: u8,
    },
    /// 0 ArcMutex, 1 ArcRwLock, 2 static Mutex, 3 static RwLock
    Threads { variant: u8, threads: u8, increments: u32 },
    /// like Threads, but the first thread holds one of its mutable borrows for `hold_ms` while the others wait
    LongHold { variant: u8, threads: u8, hold_ms: u32 },
    /// the static_* macros: clones alias one static, distinct call sites are distinct objects
    Statics,
    /// compile-time half of "regardless of which features the calling crate declares": a tiny library crate that calls
    /// to_dyn! on a Ptr, an RcRefCell and a PtrRwLock Reference is compiled by rustc against the live rrtk (built with std),
    /// as a `#![no_std]` or ordinary crate, with or without cfg(feature = "alloc"/"std") set for it; it must compile whenever
    /// its control twin (same crate without the to_dyn! calls) does. The crate names everything by path (no `use rrtk::*`):
    /// the macro must not rely on helper items being in the caller's scope
    CallerCompiles { no_std: bool, features: bool },
    /// the interpreter crate, which expands to_dyn! for every variant of the build, compiles against rrtk built with
    /// `alloc` only (1) / without any feature (2) whenever its twin without the to_dyn! expansions does
    RrtkBuildCompiles { rrtk_build: u8 },
    /// a borrow taken through a lock-backed Reference holds the lock for as long as it lives (0 Arc<Mutex>, 1 Arc<RwLock>):
    /// observed from outside with try_lock / try_read / try_write on the shared Arc, never by blocking
    LockHeld { variant: u8 },
}

fn variant(i: u8) -> Variant {
    VARIANTS[i as usize % VARIANTS.len()]
}
fn hops(ops: &[SOp]) -> Vec<HOp> {
    ops.iter()
        .map(|o| match o {
            SOp::Clone(k) => HOp::Clone(*k),
            SOp::ToDyn(k) => HOp::ToDyn(*k),
            SOp::Read(k) => HOp::Read(*k),
            SOp::Write(k, v) => HOp::Write(*k, *v),
            SOp::Drop(k) => HOp::Drop(*k),
        })
        .collect()
}
fn seq_key(s: &Seq) -> u64 {
    hash_of(&(s.variant % 6, s.ops.iter().map(|o| match o { SOp::Clone(k) => (0u8, *k, 0i64), SOp::ToDyn(k) => (1, *k, 0), SOp::Read(k) => (2, *k, 0), SOp::Write(k, v) => (3, *k, *v), SOp::Drop(k) => (4, *k, 0) }).collect::<Vec<_>>()))
}
fn ds_binary(with_features: bool, rrtk_build: u8) -> Option<String> {
    match rrtk_build % 3 {
        0 => Some(format!("{}/work/target-ds-{}/release/downstream", verif_root().display(), if with_features { "feat" } else { "nofeat" })),
        b => match variant_build(b) {
            VariantBuild::Built(path) => Some(path),
            _ => None,
        },
    }
}
#[derive(Clone, Debug)]
enum VariantBuild {
    Built(String),
    /// the crate compiles without its to_dyn! expansions but not with them: (diagnostics)
    ToDynDoesNotCompile(String),
    /// neither build works: nothing can be said (diagnostics)
    Unavailable(String),
}
/// builds `ds_variants` against rrtk with `alloc` only (1) or without features (2), once per process
fn variant_build(build: u8) -> VariantBuild {
    static CACHE: [std::sync::OnceLock<VariantBuild>; 2] = [std::sync::OnceLock::new(), std::sync::OnceLock::new()];
    let idx = if build % 3 == 1 { 0 } else { 1 };
    CACHE[idx]
        .get_or_init(|| {
            let name = if idx == 0 { "alloc" } else { "bare" };
            let dir = verif_root().join("ds_variants");
            if !dir.join("Cargo.lock").exists() {
                let _ = std::fs::copy(verif_root().join("cfgrun").join("Cargo.lock"), dir.join("Cargo.lock"));
            }
            let cargo = |control: bool| -> Result<(), String> {
                let mut feats: Vec<&str> = Vec::new();
                if idx == 0 {
                    feats.push("interp_alloc");
                }
                if control {
                    feats.push("interp_no_to_dyn");
                }
                let target = verif_root().join("work").join(format!("target-ds-{}{}", name, if control { "-control" } else { "" }));
                let mut cmd = Proc::new("cargo");
                cmd.current_dir(&dir).args(["build", "--offline", "--release", "--target-dir"]).arg(&target);
                if !feats.is_empty() {
                    cmd.arg("--features").arg(feats.join(","));
                }
                match cmd.env_remove("RUSTFLAGS").env("CARGO_NET_OFFLINE", "true").output() {
                    Ok(o) if o.status.success() => Ok(()),
                    Ok(o) => Err(String::from_utf8_lossy(&o.stderr).lines().filter(|l| l.starts_with("error")).take(6).collect::<Vec<_>>().join(" | ")),
                    Err(e) => Err(format!("cannot run cargo: {}", e)),
                }
            };
            match cargo(false) {
                Ok(()) => VariantBuild::Built(format!("{}/work/target-ds-{}/release/ds_variant", verif_root().display(), name)),
                Err(diag) => match cargo(true) {
                    Ok(()) => VariantBuild::ToDynDoesNotCompile(diag),
                    Err(d2) => VariantBuild::Unavailable(format!("{} / control: {}", diag, d2)),
                },
            }
        })
        .clone()
}
/// the variant a sequence runs on in a given build of rrtk (std: all six; alloc: Ptr, RcRefCell; none: Ptr)
fn variant_in(build: u8, i: u8) -> Variant {
    match build % 3 {
        0 => variant(i),
        1 => [Variant::Ptr, Variant::RcRefCell][i as usize % 2],
        _ => Variant::Ptr,
    }
}

fn static_mutex_ref() -> Reference<i64> {
    static_mutex_reference!(i64, 0)
}
fn static_rw_lock_ref() -> Reference<i64> {
    static_rw_lock_reference!(i64, 0)
}
static STATICS_GUARD: Mutex<()> = Mutex::new(());

fn stress(variant: u8, threads: u8, increments: u32) -> Result<(), Violation> {
    stress_hold(variant, threads, increments, 0)
}
fn stress_hold(variant: u8, threads: u8, increments: u32, hold_ms: u32) -> Result<(), Violation> {
    let _g = STATICS_GUARD.lock().unwrap_or_else(|e| e.into_inner());
    let (am, arw) = (Arc::new(Mutex::new(0i64)), Arc::new(RwLock::new(0i64)));
    let name = ["ArcMutex", "ArcRwLock", "static Mutex", "static RwLock"][variant as usize % 4];
    match variant % 4 {
        2 => *static_mutex_ref().borrow_mut() = 0,
        3 => *static_rw_lock_ref().borrow_mut() = 0,
        _ => {}
    }
    std::thread::scope(|sc| {
        for ti in 0..threads {
            let (am, arw) = (am.clone(), arw.clone());
            sc.spawn(move || {
                if hold_ms > 0 && ti > 0 {
                    // let the holder take the lock first
                    std::thread::sleep(std::time::Duration::from_millis(50));
                }
                // every thread builds its own Reference over the shared Arc / static
                let r: Reference<i64> = match variant % 4 {
                    0 => Reference::from_arc_mutex(am),
                    1 => Reference::from_arc_rw_lock(arw),
                    2 => static_mutex_ref(),
                    _ => static_rw_lock_ref(),
                };
                for i in 0..increments {
                    let mut b = r.borrow_mut();
                    let v = *b;
                    if i % 64 == 0 {
                        std::thread::yield_now(); // widen the race window
                    }
                    if hold_ms > 0 && ti == 0 && i == 0 {
                        std::thread::sleep(std::time::Duration::from_millis(hold_ms as u64));
                    }
                    *b = v + 1;
                }
            });
        }
    });
    let total = match variant % 4 {
        0 => *am.lock().unwrap(),
        1 => *arw.read().unwrap(),
        2 => *static_mutex_ref().borrow(),
        _ => *static_rw_lock_ref().borrow(),
    };
    let want = threads as i64 * increments as i64;
    ensure!(total == want, format!("C17/lost-update/{}", name), "{} threads x {} increments under borrow_mut() of {} References ended at {} instead of {}", threads, increments, name, total, want);
    Ok(())
}

pub fn statics() -> Result<(), Violation> {
    let _g = STATICS_GUARD.lock().unwrap_or_else(|e| e.into_inner());
    trait Val {
        fn v(&self) -> i64;
    }
    impl Val for i64 {
        fn v(&self) -> i64 {
            *self
        }
    }
    // Ptr-variant static
    fn site_a() -> Reference<i64> {
        static_reference!(i64, 0)
    }
    fn site_b() -> Reference<i64> {
        static_reference!(i64, 0)
    }
    for (name, a, b) in [("static_reference", site_a(), site_b()), ("static_mutex_reference", static_mutex_ref(), { fn other() -> Reference<i64> { static_mutex_reference!(i64, 0) } other() }), ("static_rw_lock_reference", static_rw_lock_ref(), { fn other() -> Reference<i64> { static_rw_lock_reference!(i64, 0) } other() })] {
        *a.borrow_mut() = 0;
        *b.borrow_mut() = 0;
        let a2 = a.clone();
        *a.borrow_mut() = 41;
        ensure!(*a2.borrow() == 41, format!("C17/statics/{}", name), "{}: a clone does not see a write made through the original", name);
        *a2.borrow_mut() += 1;
        ensure!(*a.borrow() == 42, format!("C17/statics/{}", name), "{}: the original does not see a write made through a clone", name);
        ensure!(*b.borrow() == 0, format!("C17/statics/{}", name), "{}: two different call sites share one object", name);
        *a.borrow_mut() = 0;
    }
    // evaluating the same call site again hands out the same, still living object: nothing is reset or dropped
    for (name, site) in [("static_reference", site_a as fn() -> Reference<i64>), ("static_mutex_reference", static_mutex_ref as fn() -> Reference<i64>), ("static_rw_lock_reference", static_rw_lock_ref as fn() -> Reference<i64>)] {
        let first = site();
        *first.borrow_mut() = 314;
        let again = site();
        ensure!(*first.borrow() == 314 && *again.borrow() == 314, format!("C17/statics/{}/re-evaluated", name), "{}: after the same call site was evaluated a second time the first Reference reads {} and the second {} (314 was written through the first)", name, *first.borrow(), *again.borrow());
        *again.borrow_mut() = 0;
        ensure!(*first.borrow() == 0, format!("C17/statics/{}/re-evaluated", name), "{}: two evaluations of one call site do not alias", name);
    }
    // to_dyn! on the two static-backed variants the macro lists
    let d = to_dyn!(Val, site_a());
    *site_a().borrow_mut() = 7;
    ensure!(d.borrow().v() == 7, "C17/statics/to_dyn-ptr", "to_dyn! of a static_reference does not alias the static");
    *site_a().borrow_mut() = 0;
    let d = to_dyn!(Val, static_rw_lock_ref());
    *static_rw_lock_ref().borrow_mut() = 9;
    ensure!(d.borrow().v() == 9, "C17/statics/to_dyn-rwlock", "to_dyn! of a static_rw_lock_reference does not alias the static");
    *static_rw_lock_ref().borrow_mut() = 0;
    Ok(())
}

pub fn check(s: &Scenario) -> CheckResult {
    match s {
        Scenario::InProcess(seq) => match ref_interp::run(variant(seq.variant), &hops(&seq.ops)) {
            Ok(info) => Ok(CaseInfo::new(info.nontrivial, seq_key(seq)).class("in-process (features declared)").class_if(info.used_dyn, "uses to_dyn!").class_if(info.max_handles >= 3, ">= 3 live handles")),
            Err((key, msg)) => Err(Violation::new(key, format!("{} (variant {:?}, ops {:?})", msg, variant(seq.variant), seq.ops))),
        },
        Scenario::Downstream { with_features, seqs, rrtk_build } => {
            let build = *rrtk_build % 3;
            let build_name = ["rrtk built with std", "rrtk built with alloc only", "rrtk built without features"][build as usize];
            let Some(bin) = ds_binary(*with_features, build) else {
                // reported (or skipped) by the RrtkBuildCompiles scenario
                return Ok(CaseInfo::new(false, 0).class("non-std rrtk build unavailable (skipped)"));
            };
            let mut child = Proc::new(&bin).stdin(Stdio::piped()).stdout(Stdio::piped()).stderr(Stdio::null()).spawn().map_err(|e| Violation::new("C17/infrastructure", format!("cannot start {}: {}", bin, e)))?;
            {
                let mut stdin = child.stdin.take().unwrap();
                for q in seqs {
                    writeln!(stdin, "{}", ref_interp::encode(variant_in(build, q.variant), &hops(&q.ops))).unwrap();
                }
            }
            let out = child.wait_with_output().map_err(|e| Violation::new("C17/infrastructure", format!("{}", e)))?;
            let text = String::from_utf8_lossy(&out.stdout);
            let lines: Vec<&str> = text.lines().collect();
            ensure!(lines.len() == seqs.len(), "C17/downstream-crashed", "the downstream binary ({}, {}) answered {} of {} sequences (exit {:?})", if *with_features && build == 0 { "with features" } else { "without features" }, build_name, lines.len(), seqs.len(), out.status.code());
            let mut nontrivial = false;
            for (q, l) in seqs.iter().zip(&lines) {
                if let Some(rest) = l.strip_prefix("fail ") {
                    let mut p = rest.splitn(2, '\t');
                    let key = p.next().unwrap_or("C17/unknown").to_string();
                    let msg = p.next().unwrap_or("");
                    let key = match (build, *with_features) {
                        (0, true) => key,
                        (0, false) => format!("{}/featureless-caller", key),
                        (1, _) => format!("{}/alloc-only-rrtk", key),
                        _ => format!("{}/featureless-rrtk", key),
                    };
                    return Err(Violation::new(key, format!("in a calling crate {} features named alloc/std, {}: {} (variant {:?}, ops {:?})", if *with_features && build == 0 { "with" } else { "without" }, build_name, msg, variant_in(build, q.variant), q.ops)));
                }
                nontrivial |= *l == "ok 1";
            }
            Ok(CaseInfo::new(nontrivial, hash_of(&(*with_features, build, seqs.iter().map(seq_key).collect::<Vec<_>>()))).class(match (build, *with_features) {
                (0, true) => "downstream crate with features alloc/std",
                (0, false) => "downstream crate without features",
                (1, _) => "downstream crate against an alloc-only rrtk",
                _ => "downstream crate against a feature-less rrtk",
            }))
        }
        Scenario::Threads { variant, threads, increments } => {
            stress(*variant, *threads, *increments)?;
            Ok(CaseInfo::new(true, hash_of(&(variant % 4, *threads, *increments))).class("multi-thread increments"))
        }
        Scenario::LongHold { variant, threads, hold_ms } => {
            // a waiting thread may be kept waiting arbitrarily long by the schedule: it must still not lose its updates
            let r = catch(|| stress_hold(*variant, *threads, 200, *hold_ms));
            match r {
                Ok(r) => r?,
                Err(m) => return Err(Violation::new(format!("C17/lost-update/long-hold/{}", variant % 4), format!("a thread waiting {} ms for a mutable borrow held by another thread panicked instead of waiting: {}", hold_ms, m))),
            }
            Ok(CaseInfo::new(true, hash_of(&("hold", variant % 4, *threads, *hold_ms))).class("long-held borrow under contention"))
        }
        Scenario::Statics => {
            statics()?;
            Ok(CaseInfo::new(true, 17).class("static_* macros"))
        }
        Scenario::CallerCompiles { no_std, features } => caller_compiles(*no_std, *features),
        Scenario::LockHeld { variant } => {
            lock_held(*variant)?;
            Ok(CaseInfo::new(true, hash_of(&("lock-held", variant % 8))).class("borrow holds its lock"))
        }
        Scenario::RrtkBuildCompiles { rrtk_build } => {
            let b = if *rrtk_build % 3 == 1 { 1 } else { 2 };
            let name = if b == 1 { "alloc-only" } else { "featureless" };
            match variant_build(b) {
                VariantBuild::Built(_) => Ok(CaseInfo::new(true, hash_of(&("rrtk-build", b))).class("to_dyn! compiles against a non-std rrtk")),
                VariantBuild::ToDynDoesNotCompile(diag) => Err(Violation::new(format!("C17/to_dyn/does-not-compile/{}-rrtk", name), format!("against rrtk built {} a crate that uses to_dyn! does not compile, while the same crate without the to_dyn! expansions does: {}", if b == 1 { "with `alloc` only" } else { "without any feature" }, diag))),
                VariantBuild::Unavailable(_) => Ok(CaseInfo::new(false, 0).class("non-std rrtk build unavailable (skipped)")),
            }
        }
    }
}

trait LockedVal {
    fn val(&self) -> i64;
    fn put(&mut self, v: i64);
}
impl LockedVal for i64 {
    fn val(&self) -> i64 {
        *self
    }
    fn put(&mut self, v: i64) {
        *self = v;
    }
}
/// The pointer-to-lock variants, also after `to_dyn!` (which supports PtrRwLock): the lock the caller handed over is held for as
/// long as a borrow is alive and free afterwards.
fn ptr_lock_held(variant: u8) -> Result<(), Violation> {
    if variant % 4 == 2 {
        let lock: &'static RwLock<i64> = Box::leak(Box::new(RwLock::new(5i64)));
        let plain = unsafe { Reference::from_ptr_rw_lock(lock as *const RwLock<i64>) };
        for (how, r) in [("from_ptr_rw_lock", plain.clone()), ("a clone", plain.clone().clone())] {
            {
                let b = r.borrow();
                ensure!(*b == 5, "C17/lock-held/PtrRwLock", "borrow() through {} reads {}", how, *b);
                ensure!(lock.try_write().is_err(), "C17/lock-held/PtrRwLock", "while a Borrow taken through {} is alive a writer can get the lock", how);
            }
            ensure!(lock.try_write().is_ok(), "C17/lock-held/PtrRwLock", "after the Borrow taken through {} was dropped a writer still cannot get the lock", how);
            {
                let mut b = r.borrow_mut();
                *b = 5;
                ensure!(lock.try_read().is_err() && lock.try_write().is_err(), "C17/lock-held/PtrRwLock", "while a BorrowMut taken through {} is alive the lock can be taken by someone else", how);
            }
            ensure!(lock.try_write().is_ok(), "C17/lock-held/PtrRwLock", "after the BorrowMut taken through {} was dropped the lock is still held", how);
        }
        let converted: Reference<dyn LockedVal> = to_dyn!(LockedVal, plain.clone());
        for (how, r) in [("to_dyn!", converted.clone()), ("a clone of the to_dyn! result", converted.clone().clone())] {
            {
                let b = r.borrow();
                ensure!(b.val() == 5, "C17/lock-held/PtrRwLock-to_dyn", "borrow() through {} reads {}", how, b.val());
                ensure!(lock.try_write().is_err(), "C17/lock-held/PtrRwLock-to_dyn", "while a Borrow taken through {} is alive a writer can get the original lock: the converted Reference no longer goes through it", how);
            }
            ensure!(lock.try_write().is_ok(), "C17/lock-held/PtrRwLock-to_dyn", "after the Borrow taken through {} was dropped a writer still cannot get the lock", how);
            {
                let mut b = r.borrow_mut();
                b.put(5);
                ensure!(lock.try_read().is_err() && lock.try_write().is_err(), "C17/lock-held/PtrRwLock-to_dyn", "while a BorrowMut taken through {} is alive the original lock can be taken by someone else: the converted Reference no longer goes through it", how);
            }
            ensure!(lock.try_write().is_ok(), "C17/lock-held/PtrRwLock-to_dyn", "after the BorrowMut taken through {} was dropped the lock is still held", how);
        }
        // a write through the converted reference while the plain one is idle lands in the same cell
        converted.borrow_mut().put(6);
        ensure!(*plain.borrow() == 6 && *lock.read().unwrap() == 6, "C17/lock-held/PtrRwLock-to_dyn", "a write through the to_dyn! result is not seen through the original lock");
    } else {
        let lock: &'static Mutex<i64> = Box::leak(Box::new(Mutex::new(5i64)));
        let plain = unsafe { Reference::from_ptr_mutex(lock as *const Mutex<i64>) };
        for (how, r) in [("from_ptr_mutex", plain.clone()), ("a clone", plain.clone().clone())] {
            {
                let b = r.borrow();
                ensure!(*b == 5, "C17/lock-held/PtrMutex", "borrow() through {} reads {}", how, *b);
                ensure!(lock.try_lock().is_err(), "C17/lock-held/PtrMutex", "while a Borrow taken through {} is alive the mutex is not locked", how);
            }
            ensure!(lock.try_lock().is_ok(), "C17/lock-held/PtrMutex", "after the Borrow taken through {} was dropped the mutex is still locked", how);
            {
                let mut b = r.borrow_mut();
                *b = 5;
                ensure!(lock.try_lock().is_err(), "C17/lock-held/PtrMutex", "while a BorrowMut taken through {} is alive the mutex is not locked", how);
            }
            ensure!(lock.try_lock().is_ok(), "C17/lock-held/PtrMutex", "after the BorrowMut taken through {} was dropped the mutex is still locked", how);
        }
    }
    Ok(())
}
struct Flagged {
    v: i64,
    dropped: Arc<std::sync::atomic::AtomicU32>,
}
impl Drop for Flagged {
    fn drop(&mut self) {
        self.dropped.fetch_add(1, std::sync::atomic::Ordering::SeqCst);
    }
}
impl LockedVal for Flagged {
    fn val(&self) -> i64 {
        self.v
    }
    fn put(&mut self, v: i64) {
        self.v = v;
    }
}
/// `to_dyn!` does not list the Arc variants today (it panics `unimplemented!`). Should it ever accept one, the result must be
/// what the property says of every listed variant: the same object, kept alive by the converted Reference alone.
fn arc_to_dyn_if_listed() -> Result<(), Violation> {
    use std::sync::atomic::Ordering::SeqCst;
    for which in 0..2 {
        let name = if which == 0 { "ArcRwLock" } else { "ArcMutex" };
        let dropped = Arc::new(std::sync::atomic::AtomicU32::new(0));
        let target = Flagged { v: 5, dropped: dropped.clone() };
        let plain: Reference<Flagged> = if which == 0 { Reference::from_arc_rw_lock(Arc::new(RwLock::new(target))) } else { Reference::from_arc_mutex(Arc::new(Mutex::new(target))) };
        let keep = plain.clone();
        let converted = catch(move || -> Reference<dyn LockedVal> { to_dyn!(LockedVal, plain) });
        let converted = match converted {
            Err(_) => continue, // not a listed variant
            Ok(c) => c,
        };
        ensure!(dropped.load(SeqCst) == 0, format!("C17/to_dyn/{}/target-dropped", name), "to_dyn! accepted a {} Reference and the target was dropped during the conversion", name);
        keep.borrow_mut().put(6);
        ensure!(converted.borrow().val() == 6, format!("C17/to_dyn/{}/alias", name), "a write through the original {} Reference is not seen through its to_dyn! conversion", name);
        drop(keep);
        // the converted Reference is now the only handle: the target must still be alive (checked before touching it)
        if dropped.load(SeqCst) != 0 {
            std::mem::forget(converted);
            return Err(Violation::new(format!("C17/to_dyn/{}/target-dropped", name), format!("to_dyn! accepted a {} Reference, but its result does not keep the target alive: the target was dropped while the converted Reference still exists", name)));
        }
        converted.borrow_mut().put(7);
        ensure!(converted.borrow().val() == 7, format!("C17/to_dyn/{}/alias", name), "a write through the converted {} Reference is lost", name);
        drop(converted);
        ensure!(dropped.load(SeqCst) == 1, format!("C17/to_dyn/{}/leak-or-double-drop", name), "after the last handle of a converted {} Reference was dropped the target was dropped {} times", name, dropped.load(SeqCst));
    }
    Ok(())
}
/// An Rc<RefCell>-backed Reference hands out a mutable borrow only while no other borrow is alive (it refuses by panicking,
/// as RefCell does): otherwise a shared borrow would watch its target change - or be freed - under it.
fn rc_exclusive() -> Result<(), Violation> {
    let r = rc_ref_cell_reference(5i64);
    let c = r.clone();
    {
        let held = r.borrow();
        let c2 = c.clone();
        let got = catch(move || {
            let mut m = c2.borrow_mut();
            *m += 1;
        });
        ensure!(got.is_err(), "C17/lock-held/RcRefCell", "while a Borrow of an Rc<RefCell>-backed Reference is alive, borrow_mut() through a clone handed out a mutable borrow");
        ensure!(*held == 5, "C17/lock-held/RcRefCell", "a shared borrow saw its target change to {}", *held);
    }
    {
        let mut held = r.borrow_mut();
        *held = 6;
        let (c2, c3) = (c.clone(), c.clone());
        let got_shared = catch(move || *c2.borrow());
        let got_mut = catch(move || {
            let mut m = c3.borrow_mut();
            *m += 1;
        });
        ensure!(got_shared.is_err() && got_mut.is_err(), "C17/lock-held/RcRefCell", "while a BorrowMut of an Rc<RefCell>-backed Reference is alive, a clone handed out another borrow (shared: {}, mutable: {})", got_shared.is_ok(), got_mut.is_ok());
    }
    ensure!(*c.borrow() == 6, "C17/lock-held/RcRefCell", "after the borrows ended the target reads {}", *c.borrow());
    Ok(())
}
/// A reader on another thread, using its own Reference over the same lock, waits for a live mutable borrow to end and then sees
/// the write; it does not panic and does not read early.
fn readers_wait() -> Result<(), Violation> {
    for which in 0..4 {
        let name = ["ArcRwLock", "ArcMutex", "PtrRwLock", "PtrMutex"][which];
        let arc_rw = Arc::new(RwLock::new(1i64));
        let arc_mx = Arc::new(Mutex::new(1i64));
        let ptr_rw: &'static RwLock<i64> = Box::leak(Box::new(RwLock::new(1i64)));
        let ptr_mx: &'static Mutex<i64> = Box::leak(Box::new(Mutex::new(1i64)));
        let make = move || -> Reference<i64> {
            match which {
                0 => Reference::from_arc_rw_lock(arc_rw.clone()),
                1 => Reference::from_arc_mutex(arc_mx.clone()),
                2 => unsafe { Reference::from_ptr_rw_lock(ptr_rw as *const RwLock<i64>) },
                _ => unsafe { Reference::from_ptr_mutex(ptr_mx as *const Mutex<i64>) },
            }
        };
        let writer = make();
        let mut held = writer.borrow_mut();
        let started = Arc::new(std::sync::atomic::AtomicBool::new(false));
        let started2 = started.clone();
        let make2 = make.clone();
        let reader = std::thread::spawn(move || {
            let r = make2();
            started2.store(true, std::sync::atomic::Ordering::SeqCst);
            let v = *r.borrow();
            v
        });
        while !started.load(std::sync::atomic::Ordering::SeqCst) {
            std::thread::yield_now();
        }
        std::thread::sleep(std::time::Duration::from_millis(15));
        *held = 42;
        drop(held);
        match reader.join() {
            Ok(v) => ensure!(v == 42, format!("C17/reader-waits/{}", name), "a reader on another thread read {} while a mutable borrow that then wrote 42 was still alive", v),
            Err(_) => return Err(Violation::new(format!("C17/reader-waits/{}", name), format!("borrow() through a {} Reference on another thread panicked while a mutable borrow was alive instead of waiting for it", name))),
        }
    }
    Ok(())
}
pub fn lock_held(variant: u8) -> Result<(), Violation> {
    match variant % 8 {
        2 | 3 => return ptr_lock_held(variant % 4),
        4 => return arc_to_dyn_if_listed(),
        5 => return rc_exclusive(),
        6 | 7 => return readers_wait(),
        _ => {}
    }
    if variant % 2 == 0 {
        let arc = Arc::new(Mutex::new(5i64));
        for (how, r) in [("from_arc_mutex", Reference::from_arc_mutex(arc.clone())), ("a clone", Reference::from_arc_mutex(arc.clone()).clone())] {
            {
                let b = r.borrow();
                ensure!(*b == 5, "C17/lock-held/ArcMutex", "borrow() through {} reads {}", how, *b);
                ensure!(arc.try_lock().is_err(), "C17/lock-held/ArcMutex", "while a Borrow taken through {} is alive the mutex is not locked: another thread could replace the target under it", how);
            }
            ensure!(arc.try_lock().is_ok(), "C17/lock-held/ArcMutex", "after the Borrow taken through {} was dropped the mutex is still locked", how);
            {
                let mut b = r.borrow_mut();
                *b = 5;
                ensure!(arc.try_lock().is_err(), "C17/lock-held/ArcMutex", "while a BorrowMut taken through {} is alive the mutex is not locked", how);
            }
            ensure!(arc.try_lock().is_ok(), "C17/lock-held/ArcMutex", "after the BorrowMut taken through {} was dropped the mutex is still locked", how);
        }
    } else {
        let arc = Arc::new(RwLock::new(5i64));
        for (how, r) in [("from_arc_rw_lock", Reference::from_arc_rw_lock(arc.clone())), ("a clone", Reference::from_arc_rw_lock(arc.clone()).clone())] {
            {
                let b = r.borrow();
                ensure!(*b == 5, "C17/lock-held/ArcRwLock", "borrow() through {} reads {}", how, *b);
                ensure!(arc.try_write().is_err(), "C17/lock-held/ArcRwLock", "while a Borrow taken through {} is alive a writer can get the lock", how);
            }
            ensure!(arc.try_write().is_ok(), "C17/lock-held/ArcRwLock", "after the Borrow taken through {} was dropped a writer still cannot get the lock", how);
            {
                let mut b = r.borrow_mut();
                *b = 5;
                ensure!(arc.try_read().is_err() && arc.try_write().is_err(), "C17/lock-held/ArcRwLock", "while a BorrowMut taken through {} is alive the lock can be taken by someone else", how);
            }
            ensure!(arc.try_write().is_ok(), "C17/lock-held/ArcRwLock", "after the BorrowMut taken through {} was dropped the lock is still held", how);
        }
    }
    Ok(())
}
fn caller_source(no_std: bool, with_to_dyn: bool) -> String {
    let head = if no_std { "#![no_std]\n#![allow(unused, dead_code)]\nextern crate std as host;\n" } else { "#![allow(unused, dead_code)]\nextern crate std as host;\n" };
    let conv = |r: &str| if with_to_dyn { format!("rrtk::to_dyn!(Bump, {})", r) } else { format!("{{ let _ = {}; unimplemented!() }}", r) };
    format!(
        r#"{head}use rrtk::Reference;
pub trait Bump {{
    fn bump(&mut self);
    fn value(&self) -> u32;
}}
pub struct Counter(pub u32);
impl Bump for Counter {{
    fn bump(&mut self) {{
        self.0 += 1;
    }}
    fn value(&self) -> u32 {{
        self.0
    }}
}}
pub fn from_ptr(p: *mut Counter) -> Reference<dyn Bump> {{
    let concrete = unsafe {{ Reference::from_ptr(p) }};
    {ptr}
}}
pub fn from_rc(x: Counter) -> Reference<dyn Bump> {{
    let concrete = rrtk::rc_ref_cell_reference(x);
    {rc}
}}
pub fn from_rw_lock(p: *const host::sync::RwLock<Counter>) -> Reference<dyn Bump> {{
    let concrete = unsafe {{ Reference::from_ptr_rw_lock(p) }};
    {rw}
}}
pub fn again(concrete: Reference<dyn Bump>) -> Reference<dyn Bump> {{
    {again}
}}
pub struct Borrowing<'a>(pub &'a core::cell::Cell<u32>);
impl<'a> Bump for Borrowing<'a> {{
    fn bump(&mut self) {{
        self.0.set(self.0.get() + 1);
    }}
    fn value(&self) -> u32 {{
        self.0.get()
    }}
}}
pub fn borrowing<'a>(p: *mut Borrowing<'a>) -> Reference<dyn Bump + 'a> {{
    let concrete = unsafe {{ Reference::from_ptr(p) }};
    {borrowing}
}}
pub fn borrowing_rc<'a>(x: Borrowing<'a>) -> Reference<dyn Bump + 'a> {{
    let concrete = rrtk::rc_ref_cell_reference(x);
    {borrowing_rc}
}}
"#,
        head = head,
        ptr = conv("concrete"),
        rc = conv("concrete"),
        rw = conv("concrete"),
        again = conv("concrete"),
        borrowing = conv("concrete"),
        borrowing_rc = conv("concrete"),
    )
}
fn caller_compiles(no_std: bool, features: bool) -> CheckResult {
    let (rmeta, deps) = match crate::c16::rrtk_rmeta() {
        Ok(x) => x,
        // the same cargo invocation underlies C16's probes; if it is unavailable nothing can be said here
        Err(_) => return Ok(CaseInfo::new(false, 0).class("caller probe: rrtk metadata unavailable (skipped)")),
    };
    let dir = verif_root().join("work").join("probes").join("callers");
    let _ = std::fs::create_dir_all(dir.join("out"));
    let compile = |with_to_dyn: bool| -> (bool, String) {
        let name = format!("caller_{}_{}_{}", if no_std { "nostd" } else { "std" }, if features { "feat" } else { "nofeat" }, if with_to_dyn { "probe" } else { "control" });
        let file = dir.join(format!("{}.rs", name));
        let _ = std::fs::write(&file, caller_source(no_std, with_to_dyn));
        let mut cmd = std::process::Command::new("rustc");
        cmd.args(["--edition=2021", "--crate-type=lib", "--emit=metadata", "--error-format=short", "--cap-lints=allow"]);
        if features {
            cmd.args(["--cfg", "feature=\"alloc\"", "--cfg", "feature=\"std\""]);
        }
        cmd.arg("--crate-name").arg(&name).arg("--out-dir").arg(dir.join("out")).arg("--extern").arg(format!("rrtk={}", rmeta)).arg("-L").arg(format!("dependency={}", deps.display())).arg(&file);
        match cmd.env_remove("RUSTFLAGS").output() {
            Ok(o) => (o.status.success(), String::from_utf8_lossy(&o.stderr).lines().filter(|l| l.contains("error")).take(8).collect::<Vec<_>>().join(" | ")),
            Err(e) => (false, format!("cannot run rustc: {}", e)),
        }
    };
    let (control_ok, _) = compile(false);
    if !control_ok {
        return Ok(CaseInfo::new(false, 0).class("caller probe: control twin does not compile (skipped)"));
    }
    let (ok, diag) = compile(true);
    ensure!(ok, format!("C17/to_dyn/caller-does-not-compile/{}", if no_std { "no_std" } else { "std" }), "a {} calling crate {} cfg(feature = \"alloc\"/\"std\") cannot use to_dyn! on Ptr / RcRefCell / PtrRwLock References (or on an already converted Reference<dyn Trait>) although rrtk itself is built with std (its twin without the to_dyn! calls compiles): {}", if no_std { "#![no_std]" } else { "std" }, if features { "with" } else { "without" }, diag);
    Ok(CaseInfo::new(true, hash_of(&("caller", no_std, features))).class("calling crate compiles to_dyn!"))
}

fn sop() -> BoxedStrategy<SOp> {
    prop_oneof![3 => (0u8..8).prop_map(SOp::Clone), 3 => (0u8..8).prop_map(SOp::ToDyn), 3 => (0u8..8).prop_map(SOp::Read), 4 => (0u8..8, -1000i64..1000).prop_map(|(k, v)| SOp::Write(k, v)), 2 => (0u8..8).prop_map(SOp::Drop)].boxed()
}
fn seq() -> BoxedStrategy<Seq> {
    (0u8..6, proptest::collection::vec(sop(), 0..=12)).prop_map(|(variant, ops)| Seq { variant, ops }).boxed()
}

pub struct C17;
impl Property for C17 {
    const ID: &'static str = "C17";
    const RULE: &'static str = "random sequences of 0..12 operations {clone(k), to_dyn(k), borrow-read(k), borrow_mut-write(k, v), drop(k)} over a growing set of handles for each of the six Reference variants (raw-pointer variants backed by heap objects the harness frees afterwards; payload counts its drops), interpreted by one shared interpreter that is compiled into three crates: the harness (declares features alloc, std), a downstream crate built with `--features std`, the same downstream crate built with no features, and a second feature-less crate built against rrtk with `alloc` only (variants Ptr, RcRefCell) and against rrtk with no features at all (Ptr) - the three cfg-selected definitions of to_dyn!; plus 2..8 threads x 1e3..1e5 read-yield-write increments under borrow_mut() of per-thread References over one shared Arc<Mutex>, Arc<RwLock>, static Mutex or static RwLock; plus the static_* macros; plus four library crates ({#![no_std], std} x {with, without cfg(feature = alloc/std)}) that call to_dyn! on Ptr / RcRefCell / PtrRwLock References and must compile against the std-built rrtk whenever their twin without the calls does. Oracle: one-shared-cell model (every write is read back through every live handle), drop exactly once after the last counted handle and never while a handle lives, to_dyn! never panics for the variants it lists in any of the three crates and the result aliases the object, final counter == threads x increments. Non-trivial = a sequence with >= 2 handles of which >= 1 came from to_dyn! and a write through one handle read through another (or a thread / statics case); distinct = (crate, variant, op sequence).";
    type Scenario = Scenario;
    fn strategy(tier: Tier) -> BoxedStrategy<Scenario> {
        let inc = tier.pick(20_000u32, 100_000u32);
        prop_oneof![
            60 => seq().prop_map(Scenario::InProcess),
            3 => (any::<bool>(), proptest::collection::vec(seq(), 1..=12), prop_oneof![2 => Just(0u8), 1 => Just(1u8), 1 => Just(2u8)]).prop_map(|(with_features, seqs, rrtk_build)| Scenario::Downstream { with_features, seqs, rrtk_build }),
            1 => (0u8..4, 2u8..=8, 1_000u32..=inc).prop_map(|(variant, threads, increments)| Scenario::Threads { variant, threads, increments }),
        ]
        .boxed()
    }
    fn cases(tier: Tier) -> u32 {
        tier.pick(8_000, 40_000)
    }
    fn exhaustive(tier: Tier, sink: &mut dyn FnMut(Scenario)) -> Vec<String> {
        let _tier_hold: u32 = tier.pick(1_300, 4_000);
        sink(Scenario::Statics);
        for no_std in [false, true] {
            for features in [false, true] {
                sink(Scenario::CallerCompiles { no_std, features });
            }
        }
        for rrtk_build in [1u8, 2] {
            sink(Scenario::RrtkBuildCompiles { rrtk_build });
        }
        for variant in [0u8, 1, 2, 3, 4, 5, 6] {
            sink(Scenario::LockHeld { variant });
        }
        // every variant x every pair of ops (length-2 prefixes) followed by a fixed tail, in all three crates
        let alphabet = [SOp::Clone(0), SOp::ToDyn(0), SOp::Read(1), SOp::Write(1, 5), SOp::Drop(0), SOp::ToDyn(1)];
        let mut all = Vec::new();
        for v in 0..6u8 {
            for a in &alphabet {
                for b in &alphabet {
                    for c in &alphabet {
                        all.push(Seq { variant: v, ops: vec![a.clone(), b.clone(), c.clone(), SOp::Write(0, -3), SOp::Read(2), SOp::Read(0), SOp::Drop(1)] });
                    }
                }
            }
        }
        let n = all.len();
        for q in &all {
            sink(Scenario::InProcess(q.clone()));
        }
        for with_features in [true, false] {
            for chunk in all.chunks(108) {
                sink(Scenario::Downstream { with_features, seqs: chunk.to_vec(), rrtk_build: 0 });
            }
        }
        // the same sequences against an alloc-only rrtk (Ptr, RcRefCell) and a feature-less rrtk (Ptr): the other two
        // definitions of to_dyn! and the cfg-gated halves of Reference
        for rrtk_build in [1u8, 2] {
            for chunk in all.chunks(108) {
                sink(Scenario::Downstream { with_features: false, seqs: chunk.to_vec(), rrtk_build });
            }
        }
        for variant in 0..4u8 {
            sink(Scenario::Threads { variant, threads: 4, increments: 20_000 });
        }
        for variant in 0..4u8 {
            sink(Scenario::LongHold { variant, threads: 3, hold_ms: _tier_hold });
        }
        vec![format!("6 variants x all 3-op prefixes over a 6-letter alphabet + fixed tail ({} sequences) in each of the three crates and against an alloc-only and a feature-less rrtk; static_* macros; one stress run per lock variant", n)]
    }
    fn check(s: &Scenario) -> CheckResult {
        check(s)
    }
    fn assumptions() -> Vec<String> {
        vec![
            "the OS owns the thread schedule: the stress run is a probabilistic detector for a missing lock, std's Mutex/RwLock are trusted".into(),
            "raw-pointer variants are backed by heap objects that outlive every handle (their validity is the caller's obligation by the API's documentation)".into(),
            "to_dyn! is only required to succeed for the variants it lists (Ptr, RcRefCell, PtrRwLock)".into(),
        ]
    }
}
