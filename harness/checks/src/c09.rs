//! C09 — terminal links always form a symmetric matching; connect/disconnect never panic.
use crate::common::*;
use crate::ensure;
use proptest::prelude::*;
use rrtk::*;
use serde::{Deserialize, Serialize};
use std::cell::RefCell;

#[derive(Clone, Debug, Serialize, Deserialize)]
pub enum Op {
    Connect(u8, u8),
    Disconnect(u8),
    SetState(u8, [f32; 3], i64),
    SetCommand(u8, u8, f32, i64),
}
#[derive(Clone, Debug, Serialize, Deserialize)]
pub struct Scenario {
    pub n: u8,
    pub ops: Vec<Op>,
}

type T<'a> = RefCell<Terminal<'a, u8>>;
fn set_state(t: &T, d: Datum<State>) {
    <Terminal<u8> as Settable<Datum<State>, u8>>::set(&mut t.borrow_mut(), d).expect("terminal set is infallible");
}
fn set_command(t: &T, d: Datum<Command>) {
    <Terminal<u8> as Settable<Datum<Command>, u8>>::set(&mut t.borrow_mut(), d).expect("terminal set is infallible");
}
fn get_state(t: &T) -> Output<State, u8> {
    <Terminal<u8> as Getter<State, u8>>::get(&t.borrow())
}
fn get_command(t: &T) -> Output<Command, u8> {
    <Terminal<u8> as Getter<Command, u8>>::get(&t.borrow())
}
fn get_data(t: &T) -> Output<TerminalData, u8> {
    <Terminal<u8> as Getter<TerminalData, u8>>::get(&t.borrow())
}
fn kind(k: u8) -> PositionDerivative {
    match k % 3 {
        0 => PositionDerivative::Position,
        1 => PositionDerivative::Velocity,
        _ => PositionDerivative::Acceleration,
    }
}

/// model: partner array
fn model_apply(partner: &mut [Option<usize>], op: &Op) {
    let unlink = |p: &mut [Option<usize>], i: usize| {
        if let Some(j) = p[i] {
            p[j] = None;
            p[i] = None;
        }
    };
    match *op {
        Op::Connect(a, b) => {
            let (a, b) = (a as usize, b as usize);
            unlink(partner, a);
            unlink(partner, b);
            partner[a] = Some(b);
            partner[b] = Some(a);
        }
        Op::Disconnect(a) => unlink(partner, a as usize),
        _ => {}
    }
}

fn state_close(a: State, b: State) -> bool {
    let c = |x: f32, y: f32| same_f32(x, y) || ((x as f64) - (y as f64)).abs() <= 2.0 * ulp32(y as f64);
    c(a.position, b.position) && c(a.velocity, b.velocity) && c(a.acceleration, b.acceleration)
}

pub fn check(s: &Scenario) -> CheckResult {
    let n = s.n as usize;
    assert!((2..=6).contains(&n));
    let mut relink = false; // non-trivial: an op applied to a terminal that is already linked
    let mut sig: Vec<u64> = vec![n as u64];
    // ---------------- run 1: link structure observed through coded state reads -----------------
    {
        let terms: Vec<T> = (0..n).map(|_| Terminal::new()).collect();
        for (i, t) in terms.iter().enumerate() {
            set_state(t, Datum::new(Time(i as i64), State::new_raw((1u32 << i) as f32, 0.0, 0.0)));
        }
        let mut partner: Vec<Option<usize>> = vec![None; n];
        for (step, op) in s.ops.iter().enumerate() {
            match *op {
                Op::Connect(a, b) => {
                    let (a, b) = (a as usize % n, b as usize % n);
                    if a == b {
                        continue;
                    }
                    if partner[a].is_some() || partner[b].is_some() {
                        relink = true;
                    }
                    sig.push(hash_of(&(partner.clone(), 0u8, a, b)));
                    let r = catch(|| connect(&terms[a], &terms[b]));
                    ensure!(r.is_ok(), "C09/connect-panics", "step {}: connect({}, {}) panicked with matching {:?}: {}", step, a, b, partner, r.unwrap_err());
                    model_apply(&mut partner, &Op::Connect(a as u8, b as u8));
                }
                Op::Disconnect(a) => {
                    let a = a as usize % n;
                    if partner[a].is_some() {
                        relink = true;
                    }
                    sig.push(hash_of(&(partner.clone(), 1u8, a)));
                    let r = catch(|| terms[a].borrow_mut().disconnect());
                    ensure!(r.is_ok(), "C09/disconnect-panics", "step {}: disconnect({}) panicked with matching {:?}: {}", step, a, partner, r.unwrap_err());
                    model_apply(&mut partner, &Op::Disconnect(a as u8));
                }
                _ => continue,
            }
            // infer every terminal's partner from its state read
            for i in 0..n {
                let r = catch(|| get_state(&terms[i]));
                ensure!(r.is_ok(), "C09/read-panics", "step {}: state read of terminal {} panicked: {}", step, i, r.unwrap_err());
                let got = match r.unwrap() {
                    Ok(Some(d)) => d,
                    other => return Err(Violation::new("C09/read-absent", format!("step {}: terminal {} state read returned {:?}", step, i, other))),
                };
                let own = (1u32 << i) as f32;
                let inferred: Option<usize> = if got.value.position == own {
                    None
                } else {
                    let other = got.value.position * 2.0 - own;
                    let j = (0..n).find(|&j| j != i && (1u32 << j) as f32 == other);
                    ensure!(j.is_some(), "C09/link-garbage", "step {}: terminal {} reads position {} which is neither its own state nor a mean with another terminal", step, i, got.value.position);
                    j
                };
                ensure!(
                    inferred == partner[i],
                    "C09/link-mismatch",
                    "step {} ({:?}): terminal {} is linked to {:?} but the matching model says {:?} (model {:?})",
                    step, op, i, inferred, partner[i], partner
                );
                if let Some(j) = inferred {
                    let tm = if i > j { i } else { j } as i64;
                    ensure!(got.time == Time(tm), "C09/state-time", "step {}: linked read of terminal {} has time {:?}, expected newest {:?}", step, i, got.time, tm);
                }
            }
        }
    }
    // ---------------- run 2: value semantics with generated writes -----------------
    {
        let terms: Vec<T> = (0..n).map(|_| Terminal::new()).collect();
        let mut partner: Vec<Option<usize>> = vec![None; n];
        let mut st: Vec<Option<Datum<State>>> = vec![None; n];
        let mut cm: Vec<Option<Datum<Command>>> = vec![None; n];
        for (step, op) in s.ops.iter().enumerate() {
            match *op {
                Op::Connect(a, b) => {
                    let (a, b) = (a as usize % n, b as usize % n);
                    if a == b {
                        continue;
                    }
                    let r = catch(|| connect(&terms[a], &terms[b]));
                    ensure!(r.is_ok(), "C09/connect-panics", "step {}: connect({}, {}) panicked: {}", step, a, b, r.unwrap_err());
                    model_apply(&mut partner, &Op::Connect(a as u8, b as u8));
                }
                Op::Disconnect(a) => {
                    let a = a as usize % n;
                    let r = catch(|| terms[a].borrow_mut().disconnect());
                    ensure!(r.is_ok(), "C09/disconnect-panics", "step {}: disconnect({}) panicked: {}", step, a, r.unwrap_err());
                    model_apply(&mut partner, &Op::Disconnect(a as u8));
                }
                Op::SetState(a, v, t) => {
                    let a = a as usize % n;
                    let d = Datum::new(Time(t), State::new_raw(v[0], v[1], v[2]));
                    set_state(&terms[a], d);
                    st[a] = Some(d);
                }
                Op::SetCommand(a, k, v, t) => {
                    let a = a as usize % n;
                    let d = Datum::new(Time(t), Command::new(kind(k), v));
                    set_command(&terms[a], d);
                    cm[a] = Some(d);
                }
            }
            for i in 0..n {
                let p = partner[i];
                let rs = get_state(&terms[i]);
                let rc = get_command(&terms[i]);
                let rd = get_data(&terms[i]);
                let (Ok(rs), Ok(rc), Ok(rd)) = (rs, rc, rd) else {
                    return Err(Violation::new("C09/read-err", format!("step {}: a terminal read returned Err", step)));
                };
                // state
                let other_st = p.and_then(|j| st[j]);
                match (st[i], other_st) {
                    (None, None) => ensure!(rs.is_none(), "C09/state-read", "step {}: terminal {} has no state anywhere but reads {:?}", step, i, rs),
                    (Some(a), None) | (None, Some(a)) => ensure!(rs == Some(a), "C09/state-read", "step {}: terminal {} should read the only existing state {:?}, got {:?}", step, i, a, rs),
                    (Some(a), Some(b)) => {
                        let want_t = if a.time >= b.time { a.time } else { b.time };
                        let want = (a.value + b.value) / 2.0;
                        ensure!(rs.is_some(), "C09/state-read", "step {}: terminal {} should read a mean, got None", step, i);
                        let g = rs.unwrap();
                        ensure!(state_close(g.value, want), "C09/state-mean", "step {}: terminal {} reads {:?}, expected the mean {:?} of {:?} and {:?}", step, i, g.value, want, a.value, b.value);
                        ensure!(g.time == want_t, "C09/state-time", "step {}: terminal {} mean is stamped {:?}, newest contributing is {:?}", step, i, g.time, want_t);
                    }
                }
                if let Some(j) = p {
                    let rj = get_state(&terms[j]).unwrap();
                    let same = match (rs, rj) {
                        (None, None) => true,
                        (Some(x), Some(y)) => x.time == y.time && bits_eq(x.value.position, y.value.position) && bits_eq(x.value.velocity, y.value.velocity) && bits_eq(x.value.acceleration, y.value.acceleration),
                        _ => false,
                    };
                    ensure!(same, "C09/linked-differ", "step {}: linked terminals {} and {} read different states {:?} vs {:?}", step, i, j, rs, rj);
                }
                // command: one of the candidates, none strictly newer
                let other_cm = p.and_then(|j| cm[j]);
                let cands: Vec<Datum<Command>> = [cm[i], other_cm].into_iter().flatten().collect();
                if cands.is_empty() {
                    ensure!(rc.is_none(), "C09/command-read", "step {}: terminal {} has no command anywhere but reads {:?}", step, i, rc);
                } else {
                    ensure!(rc.is_some(), "C09/command-read", "step {}: terminal {} should read a command, got None", step, i);
                    let g = rc.unwrap();
                    ensure!(cands.iter().any(|c| *c == g) , "C09/command-read", "step {}: terminal {} reads command {:?} which is not one of {:?}", step, i, g, cands);
                    ensure!(cands.iter().all(|c| c.time <= g.time), "C09/command-newer", "step {}: terminal {} reads command {:?} although a strictly newer one exists in {:?}", step, i, g, cands);
                }
                // combined
                match (rs, rc) {
                    (None, None) => ensure!(rd.is_none(), "C09/data-read", "step {}: terminal {} combined read should be None, got {:?}", step, i, rd),
                    _ => {
                        ensure!(rd.is_some(), "C09/data-read", "step {}: terminal {} combined read is None but state {:?} command {:?}", step, i, rs, rc);
                        let d = rd.unwrap();
                        let want_t = match rs {
                            Some(x) => x.time,
                            None => rc.unwrap().time,
                        };
                        ensure!(d.time == want_t && d.value.time == want_t, "C09/data-time", "step {}: terminal {} combined read stamped {:?}/{:?}, expected {:?}", step, i, d.time, d.value.time, want_t);
                        ensure!(d.value.state == rs.map(|x| x.value) || (rs.is_some() && d.value.state.is_some() && state_close(d.value.state.unwrap(), rs.unwrap().value)), "C09/data-state", "step {}: terminal {} combined read state {:?} vs state read {:?}", step, i, d.value.state, rs);
                        ensure!(d.value.command == rc.map(|x| x.value), "C09/data-command", "step {}: terminal {} combined read command {:?} vs command read {:?}", step, i, d.value.command, rc);
                    }
                }
            }
        }
    }
    Ok(CaseInfo::new(relink, hash_of(&sig)).class_if(relink, "op on an already linked terminal").class_if(s.ops.len() > 10, "history > 10 ops"))
}

fn op_strategy() -> BoxedStrategy<Op> {
    let t = prop_oneof![
        3 => -5i64..=5,
        2 => any::<i64>(),
        1 => prop_oneof![Just(i64::MIN), Just(i64::MAX), Just(0i64)],
    ];
    prop_oneof![
        5 => (0u8..6, 0u8..6).prop_map(|(a, b)| Op::Connect(a, b)),
        2 => (0u8..6).prop_map(Op::Disconnect),
        2 => (0u8..6, prop_oneof![3 => [gen::mostly_moderate_any_finite(), gen::mostly_moderate_any_finite(), gen::mostly_moderate_any_finite()].boxed(), 2 => proptest::sample::select(vec![[1.5f32, -2.0, 0.25], [0.0, 0.0, 0.0], [-0.0, 0.0, 0.0], [3.0e38, 3.0e38, -3.0e38], [1.5, -2.0, 0.5]]).boxed()], t.clone()).prop_map(|(a, v, t)| Op::SetState(a, v, t)),
        2 => (0u8..6, 0u8..3, prop_oneof![9 => gen::mostly_moderate_any_finite(), 1 => proptest::sample::select(vec![f32::INFINITY, f32::NEG_INFINITY])], t).prop_map(|(a, k, v, t)| Op::SetCommand(a, k, v, t)),
    ]
    .boxed()
}

/// all matchings on n points, as partner arrays
fn matchings(n: usize) -> Vec<Vec<Option<usize>>> {
    fn rec(i: usize, cur: &mut Vec<Option<usize>>, out: &mut Vec<Vec<Option<usize>>>) {
        let n = cur.len();
        if i == n {
            out.push(cur.clone());
            return;
        }
        if cur[i].is_some() {
            rec(i + 1, cur, out);
            return;
        }
        rec(i + 1, cur, out); // i unmatched
        for j in i + 1..n {
            if cur[j].is_none() {
                cur[i] = Some(j);
                cur[j] = Some(i);
                rec(i + 1, cur, out);
                cur[i] = None;
                cur[j] = None;
            }
        }
    }
    let mut out = Vec::new();
    rec(0, &mut vec![None; n], &mut out);
    out
}

pub struct C09;
impl Property for C09 {
    const ID: &'static str = "C09";
    const RULE: &'static str = "exhaustive: every matching on n=2..6 terminals (built on fresh real terminals by a canonical connect sequence) x every connect(i,j), i!=j, and disconnect(i); random: op histories of length 0..40 over {connect, disconnect, set state, set command (any f32 value that is not NaN, infinities included)} on 2..6 terminals, run once with coded states (2^i) to infer every terminal's partner from its state read after every step and once with the generated writes to check read semantics against the model. Non-trivial = the history applies a connect/disconnect to a terminal that is already linked; distinct = hash of the sequence of (matching before, op).";
    type Scenario = Scenario;
    fn strategy(_tier: Tier) -> BoxedStrategy<Scenario> {
        (2u8..=6, proptest::collection::vec(op_strategy(), 0..=40)).prop_map(|(n, ops)| Scenario { n, ops }).boxed()
    }
    fn cases(tier: Tier) -> u32 {
        tier.pick(30_000, 150_000)
    }
    fn exhaustive(_tier: Tier, sink: &mut dyn FnMut(Scenario)) -> Vec<String> {
        let mut count = 0u64;
        for n in 2..=6usize {
            for m in matchings(n) {
                let mut build = Vec::new();
                for i in 0..n {
                    if let Some(j) = m[i] {
                        if i < j {
                            build.push(Op::Connect(i as u8, j as u8));
                        }
                    }
                }
                for a in 0..n {
                    for b in 0..n {
                        if a != b {
                            let mut ops = build.clone();
                            ops.push(Op::Connect(a as u8, b as u8));
                            sink(Scenario { n: n as u8, ops });
                            count += 1;
                        }
                    }
                    let mut ops = build.clone();
                    ops.push(Op::Disconnect(a as u8));
                    sink(Scenario { n: n as u8, ops });
                    count += 1;
                }
            }
        }
        vec![format!("all matchings on 2..6 terminals x all 36 operations ({} transitions)", count)]
    }
    fn check(s: &Scenario) -> CheckResult {
        check(s)
    }
    fn valid(s: &Scenario) -> bool {
        (2..=6).contains(&s.n) && s.ops.len() <= 40 && s.ops.iter().all(|o| match o {
            Op::SetState(_, v, _) => v.iter().all(|x| dom::finite(*x)),
            Op::SetCommand(_, _, v, _) => dom::finite(*v) || v.is_infinite(),
            _ => true,
        })
    }
    fn assumptions() -> Vec<String> {
        vec![
            "the hidden link is observed only through public reads: terminal i owns state 2^i, so its read identifies its partner uniquely".into(),
            "terminals are never moved after creation (Vec allocated up front)".into(),
        ]
    }
}
