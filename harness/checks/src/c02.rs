//! C02 — stateless streams honour their documented error / absent / present contract.
//! (The timestamp rules asserted here are re-used by C03 on its extreme-timestamp grid.)
use crate::common::*;
use std::cell::RefCell;
use crate::ensure;
use crate::sut::{err_code, mk_err, Scripted, ScriptedClock, E};
use proptest::prelude::*;
use rrtk::streams::converters::*;
use rrtk::streams::flow::*;
use rrtk::streams::logic::*;
use rrtk::streams::math::*;
use rrtk::streams::*;
use rrtk::*;
use serde::{Deserialize, Serialize};
use std::cell::Cell;

#[derive(Clone, Copy, Debug, Serialize, Deserialize, PartialEq, Eq, Hash)]
pub enum SK {
    SumN,
    Sum2,
    ProductN,
    Product2,
    Difference,
    Quotient,
    Exponent,
    If,
    IfElse,
    Expirer,
    NoneToError,
    NoneToValue,
    And,
    Or,
    Not,
    LatestN,
    NoneGetter,
    ConstantGetter,
    /// relation: not(and(a,b)) == or(not a, not b)
    DeMorgan,
}
/// category: 0 Err(1), 1 Err(2), 2 None, 3 Some
#[derive(Clone, Copy, Debug, Serialize, Deserialize, PartialEq)]
pub struct In {
    pub cat: u8,
    pub t: i64,
    pub v: f32,
    pub b: bool,
}
#[derive(Clone, Debug, Serialize, Deserialize)]
pub struct Scenario {
    pub stream: SK,
    pub ins: Vec<In>,
    /// payload of arithmetic streams is a Quantity (millimetres) instead of f32
    pub quantity: bool,
    pub clock_ok: bool,
    pub clock_t: i64,
    pub limit: i64,
    pub none_value: f32,
}

#[derive(Clone, Copy, Debug, PartialEq)]
pub enum Val {
    F(f32),
    B(bool),
    Q(f32, (i8, i8)),
}
impl Val {
    fn same(&self, o: &Val) -> bool {
        match (self, o) {
            (Val::F(a), Val::F(b)) => bits_eq(*a, *b),
            (Val::B(a), Val::B(b)) => a == b,
            (Val::Q(a, u), Val::Q(b, w)) => bits_eq(*a, *b) && u == w,
            _ => false,
        }
    }
}
pub type Out = Result<Option<(i64, Val)>, i32>;
fn out_same(a: &Out, b: &Out) -> bool {
    match (a, b) {
        (Err(x), Err(y)) => x == y,
        (Ok(None), Ok(None)) => true,
        (Ok(Some((t1, v1))), Ok(Some((t2, v2)))) => t1 == t2 && v1.same(v2),
        _ => false,
    }
}
pub fn unit_exps(u: Unit) -> (i8, i8) {
    for m in -12i8..=12 {
        for s in -12i8..=12 {
            if u == Unit::new(m, s) {
                return (m, s);
            }
        }
    }
    (i8::MIN, i8::MIN)
}

fn conv<T>(o: Output<T, E>, f: impl Fn(T) -> Val) -> Out {
    match o {
        Err(e) => Err(err_code(e)),
        Ok(None) => Ok(None),
        Ok(Some(d)) => Ok(Some((d.time.0, f(d.value)))),
    }
}
fn vf(x: f32) -> Val {
    Val::F(x)
}
fn vq(x: Quantity) -> Val {
    Val::Q(x.value, unit_exps(x.unit))
}
fn vb(x: bool) -> Val {
    Val::B(x)
}

thread_local! {
    /// 0: inputs return their scripted outcome; 1: present inputs return their *alternative* value (same category, same
    /// timestamp, different value) - the world changed while the stream object lived on
    static PHASE: Cell<u8> = const { Cell::new(0) };
    /// what the long-lived stream returned under the alternative assignment (third read), if the kind supports it
    static ALT_READ: RefCell<Option<Out>> = const { RefCell::new(None) };
}
/// the alternative assignment: same categories and timestamps, other values
pub fn alt_in(i: &In) -> In {
    In { v: i.v * 2.0 + 1.0, b: !i.b, ..*i }
}
pub struct Script2<T> {
    cur: Output<T, E>,
    alt: Output<T, E>,
}
impl<T: Clone> Getter<T, E> for Script2<T> {
    fn get(&self) -> Output<T, E> {
        if PHASE.with(|p| p.get()) == 1 {
            self.alt.clone()
        } else {
            self.cur.clone()
        }
    }
}
impl<T> Updatable<E> for Script2<T> {
    fn update(&mut self) -> NothingOrError<E> {
        Ok(())
    }
}
fn scripted<T: Clone + 'static>(i: &In, mk: impl Fn(&In) -> T) -> Reference<Script2<T>> {
    let out = |i: &In| match i.cat & 3 {
        0 => Err(mk_err(1)),
        1 => Err(mk_err(2)),
        2 => Ok(None),
        _ => Ok(Some(Datum::new(Time(i.t), mk(i)))),
    };
    rc_ref_cell_reference(Script2 { cur: out(i), alt: out(&alt_in(i)) })
}
fn clock(s: &Scenario) -> Reference<ScriptedClock> {
    rc_ref_cell_reference(ScriptedClock { cur: if s.clock_ok { Ok(Time(s.clock_t)) } else { Err(mk_err(9)) }, reads: Cell::new(0) })
}
fn getf(i: &In) -> f32 {
    i.v
}
fn getq(i: &In) -> Quantity {
    Quantity::new(i.v, MILLIMETER)
}
fn getb(i: &In) -> bool {
    i.b
}

fn dyn_inputs<const K: usize, T: Clone + 'static>(ins: &[In], mk: fn(&In) -> T) -> [Reference<dyn Getter<T, E>>; K] {
    core::array::from_fn(|j| to_dyn!(Getter<T, E>, scripted(&ins[j], mk)))
}
fn run_sum<const K: usize, T: Clone + Copy + core::ops::AddAssign + 'static>(ins: &[In], mk: fn(&In) -> T, val: fn(T) -> Val) -> (Out, Out) {
    let s = SumStream::new(dyn_inputs::<K, T>(ins, mk));
    let (x, y) = (s.get(), s.get());
    PHASE.with(|p| p.set(1));
    let z = s.get();
    PHASE.with(|p| p.set(0));
    ALT_READ.with(|a| *a.borrow_mut() = Some(conv(z, val)));
    (conv(x, val), conv(y, val))
}
fn run_product<const K: usize, T: Clone + Copy + core::ops::MulAssign + 'static>(ins: &[In], mk: fn(&In) -> T, val: fn(T) -> Val) -> (Out, Out) {
    let s = ProductStream::new(dyn_inputs::<K, T>(ins, mk));
    let (x, y) = (s.get(), s.get());
    PHASE.with(|p| p.set(1));
    let z = s.get();
    PHASE.with(|p| p.set(0));
    ALT_READ.with(|a| *a.borrow_mut() = Some(conv(z, val)));
    (conv(x, val), conv(y, val))
}
fn run_latest<const K: usize, T: Clone + Copy + 'static>(ins: &[In], mk: fn(&In) -> T, val: fn(T) -> Val) -> (Out, Out) {
    let s = Latest::new(dyn_inputs::<K, T>(ins, mk));
    let (x, y) = (s.get(), s.get());
    PHASE.with(|p| p.set(1));
    let z = s.get();
    PHASE.with(|p| p.set(0));
    ALT_READ.with(|a| *a.borrow_mut() = Some(conv(z, val)));
    (conv(x, val), conv(y, val))
}
macro_rules! nary {
    ($f:ident, $n:expr, $ins:expr, $mk:expr, $val:expr) => {
        match $n {
            1 => $f::<1, _>($ins, $mk, $val),
            2 => $f::<2, _>($ins, $mk, $val),
            3 => $f::<3, _>($ins, $mk, $val),
            4 => $f::<4, _>($ins, $mk, $val),
            5 => $f::<5, _>($ins, $mk, $val),
            6 => $f::<6, _>($ins, $mk, $val),
            7 => $f::<7, _>($ins, $mk, $val),
            _ => $f::<8, _>($ins, $mk, $val),
        }
    };
}
macro_rules! twice {
    ($s:expr, $val:expr) => {{
        let s = $s;
        let (x, y) = (s.get(), s.get());
        PHASE.with(|p| p.set(1));
        let z = s.get();
        PHASE.with(|p| p.set(0));
        ALT_READ.with(|a| *a.borrow_mut() = Some(conv(z, $val)));
        (conv(x, $val), conv(y, $val))
    }};
}

/// Runs the real stream; returns the first and the second read.
pub fn eval(s: &Scenario) -> (Out, Out) {
    let ins = &s.ins;
    let n = ins.len();
    match s.stream {
        SK::SumN => {
            if s.quantity {
                nary!(run_sum, n, ins, getq, vq)
            } else {
                nary!(run_sum, n, ins, getf, vf)
            }
        }
        SK::ProductN => {
            if s.quantity {
                nary!(run_product, n, ins, getq, vq)
            } else {
                nary!(run_product, n, ins, getf, vf)
            }
        }
        SK::LatestN => nary!(run_latest, n, ins, getf, vf),
        SK::Sum2 => {
            if s.quantity {
                twice!(Sum2::new(scripted(&ins[0], getq), scripted(&ins[1], getq)), vq)
            } else {
                twice!(Sum2::new(scripted(&ins[0], getf), scripted(&ins[1], getf)), vf)
            }
        }
        SK::Product2 => {
            if s.quantity {
                twice!(Product2::new(scripted(&ins[0], getq), scripted(&ins[1], getq)), vq)
            } else {
                twice!(Product2::new(scripted(&ins[0], getf), scripted(&ins[1], getf)), vf)
            }
        }
        SK::Difference => {
            if s.quantity {
                twice!(DifferenceStream::new(scripted(&ins[0], getq), scripted(&ins[1], getq)), vq)
            } else {
                twice!(DifferenceStream::new(scripted(&ins[0], getf), scripted(&ins[1], getf)), vf)
            }
        }
        SK::Quotient => {
            if s.quantity {
                twice!(QuotientStream::new(scripted(&ins[0], getq), scripted(&ins[1], getq)), vq)
            } else {
                twice!(QuotientStream::new(scripted(&ins[0], getf), scripted(&ins[1], getf)), vf)
            }
        }
        SK::Exponent => twice!(ExponentStream::new(scripted(&ins[0], getf), scripted(&ins[1], getf)), vf),
        SK::If => twice!(IfStream::new(scripted(&ins[0], getb), scripted(&ins[1], getf)), vf),
        SK::IfElse => twice!(IfElseStream::new(scripted(&ins[0], getb), scripted(&ins[1], getf), scripted(&ins[2], getf)), vf),
        SK::Expirer => twice!(Expirer::new(scripted(&ins[0], getf), clock(s), Time(s.limit)), vf),
        SK::NoneToError => twice!(NoneToError::new(scripted(&ins[0], getf)), vf),
        SK::NoneToValue => twice!(NoneToValue::new(scripted(&ins[0], getf), clock(s), s.none_value), vf),
        SK::And => twice!(AndStream::new(scripted(&ins[0], getb), scripted(&ins[1], getb)), vb),
        SK::Or => twice!(OrStream::new(scripted(&ins[0], getb), scripted(&ins[1], getb)), vb),
        SK::Not => twice!(NotStream::new(scripted(&ins[0], getb)), vb),
        SK::NoneGetter => {
            let g = NoneGetter::new();
            (conv(<NoneGetter as Getter<f32, E>>::get(&g), vf), conv(<NoneGetter as Getter<f32, E>>::get(&g), vf))
        }
        SK::ConstantGetter => twice!(ConstantGetter::new(clock(s), s.none_value), vf),
        SK::DeMorgan => {
            let (a, b) = (scripted(&ins[0], getb), scripted(&ins[1], getb));
            let lhs = NotStream::new(rc_ref_cell_reference(AndStream::new(a.clone(), b.clone())));
            let rhs = OrStream::new(rc_ref_cell_reference(NotStream::new(a)), rc_ref_cell_reference(NotStream::new(b)));
            (conv(lhs.get(), vb), conv(rhs.get(), vb))
        }
    }
}

fn first_err(ins: &[In]) -> Option<i32> {
    ins.iter().find(|i| i.cat & 3 < 2).map(|i| if i.cat & 3 == 0 { 1 } else { 2 })
}
fn as_out(i: &In, f: impl Fn(&In) -> Val) -> Out {
    match i.cat & 3 {
        0 => Err(1),
        1 => Err(2),
        2 => Ok(None),
        _ => Ok(Some((i.t, f(i)))),
    }
}
fn kleene_and(a: Option<bool>, b: Option<bool>) -> Option<bool> {
    match (a, b) {
        (Some(false), _) | (_, Some(false)) => Some(false),
        (Some(true), Some(true)) => Some(true),
        _ => None,
    }
}
fn kleene_or(a: Option<bool>, b: Option<bool>) -> Option<bool> {
    match (a, b) {
        (Some(true), _) | (_, Some(true)) => Some(true),
        (Some(false), Some(false)) => Some(false),
        _ => None,
    }
}

/// Reference written from the rustdoc of each stream; returns every acceptable outcome (ties in
/// newest-of selection admit more than one).
pub fn model(s: &Scenario) -> Vec<Out> {
    let ins = &s.ins;
    let present = |i: &In| i.cat & 3 == 3;
    let fval = |i: &In| if s.quantity { Val::Q(i.v, (1, 0)) } else { Val::F(i.v) };
    let clock: Result<i64, i32> = if s.clock_ok { Ok(s.clock_t) } else { Err(9) };
    let one = |o: Out| vec![o];
    match s.stream {
        SK::SumN | SK::Sum2 | SK::ProductN | SK::Product2 => {
            if let Some(e) = first_err(ins) {
                return one(Err(e));
            }
            let ps: Vec<&In> = ins.iter().filter(|i| present(i)).collect();
            if ps.is_empty() {
                return one(Ok(None));
            }
            let mul = matches!(s.stream, SK::ProductN | SK::Product2);
            let mut v = ps[0].v;
            let mut t = ps[0].t;
            for p in &ps[1..] {
                v = if mul { v * p.v } else { v + p.v };
                t = t.max(p.t);
            }
            let val = if s.quantity { Val::Q(v, if mul { (ps.len() as i8, 0) } else { (1, 0) }) } else { Val::F(v) };
            one(Ok(Some((t, val))))
        }
        SK::Difference | SK::Quotient | SK::Exponent => {
            if let Some(e) = first_err(&ins[..2]) {
                return one(Err(e));
            }
            if !present(&ins[0]) {
                return one(Ok(None));
            }
            if !present(&ins[1]) {
                return one(Ok(Some((ins[0].t, fval(&ins[0])))));
            }
            let (a, b) = (ins[0].v, ins[1].v);
            let t = ins[0].t.max(ins[1].t);
            let val = match s.stream {
                SK::Difference => if s.quantity { Val::Q(a - b, (1, 0)) } else { Val::F(a - b) },
                SK::Quotient => if s.quantity { Val::Q(a / b, (0, 0)) } else { Val::F(a / b) },
                _ => Val::F(a.powf(b)),
            };
            one(Ok(Some((t, val))))
        }
        SK::If => match as_out(&ins[0], |i| Val::B(i.b)) {
            Err(e) => one(Err(e)),
            Ok(Some((_, Val::B(true)))) => one(as_out(&ins[1], fval)),
            _ => one(Ok(None)),
        },
        SK::IfElse => match as_out(&ins[0], |i| Val::B(i.b)) {
            Err(e) => one(Err(e)),
            Ok(None) => one(Ok(None)),
            Ok(Some((_, Val::B(true)))) => one(as_out(&ins[1], fval)),
            _ => one(as_out(&ins[2], fval)),
        },
        SK::Expirer => match as_out(&ins[0], fval) {
            Err(e) => one(Err(e)),
            Ok(None) => one(Ok(None)),
            Ok(Some((t, v))) => match clock {
                Err(e) => one(Err(e)),
                Ok(now) => one(if (now as i128) - (t as i128) > s.limit as i128 { Ok(None) } else { Ok(Some((t, v))) }),
            },
        },
        SK::NoneToError => match as_out(&ins[0], fval) {
            Ok(None) => one(Err(-1)),
            o => one(o),
        },
        SK::NoneToValue => match as_out(&ins[0], fval) {
            Ok(None) => match clock {
                Err(e) => one(Err(e)),
                Ok(now) => one(Ok(Some((now, Val::F(s.none_value))))),
            },
            o => one(o),
        },
        SK::And | SK::Or => {
            if let Some(e) = first_err(&ins[..2]) {
                return one(Err(e));
            }
            let ob = |i: &In| if present(i) { Some(i.b) } else { None };
            let r = if s.stream == SK::And { kleene_and(ob(&ins[0]), ob(&ins[1])) } else { kleene_or(ob(&ins[0]), ob(&ins[1])) };
            let t = ins[..2].iter().filter(|i| present(i)).map(|i| i.t).max();
            match (r, t) {
                (Some(b), Some(t)) => one(Ok(Some((t, Val::B(b))))),
                _ => one(Ok(None)),
            }
        }
        SK::Not => match as_out(&ins[0], |i| Val::B(!i.b)) {
            o => one(o),
        },
        SK::LatestN => {
            let ps: Vec<&In> = ins.iter().filter(|i| present(i)).collect();
            if ps.is_empty() {
                return one(Ok(None));
            }
            let tmax = ps.iter().map(|p| p.t).max().unwrap();
            ps.iter().filter(|p| p.t == tmax).map(|p| Ok(Some((p.t, Val::F(p.v))))).collect()
        }
        SK::NoneGetter => one(Ok(None)),
        SK::ConstantGetter => match clock {
            Err(e) => one(Err(e)),
            Ok(now) => one(Ok(Some((now, Val::F(s.none_value))))),
        },
        SK::DeMorgan => vec![],
    }
}

pub fn arity_range(k: SK) -> (usize, usize) {
    match k {
        SK::SumN | SK::ProductN | SK::LatestN => (1, 5),
        SK::Sum2 | SK::Product2 | SK::Difference | SK::Quotient | SK::Exponent | SK::If | SK::And | SK::Or | SK::DeMorgan => (2, 2),
        SK::IfElse => (3, 3),
        SK::Expirer | SK::NoneToError | SK::NoneToValue | SK::Not => (1, 1),
        SK::NoneGetter | SK::ConstantGetter => (0, 0),
    }
}
pub const ALL_SK: [SK; 19] = [SK::SumN, SK::Sum2, SK::ProductN, SK::Product2, SK::Difference, SK::Quotient, SK::Exponent, SK::If, SK::IfElse, SK::Expirer, SK::NoneToError, SK::NoneToValue, SK::And, SK::Or, SK::Not, SK::LatestN, SK::NoneGetter, SK::ConstantGetter, SK::DeMorgan];

pub fn check_with(s: &Scenario, id: &str) -> CheckResult {
    let site = format!("{}/{:?}", id, s.stream);
    let (lo, hi) = arity_range(s.stream);
    let hi = if matches!(s.stream, SK::SumN | SK::ProductN | SK::LatestN) { 8 } else { hi };
    assert!(s.ins.len() >= lo && s.ins.len() <= hi, "arity out of range");
    PHASE.with(|p| p.set(0));
    ALT_READ.with(|a| *a.borrow_mut() = None);
    let r = catch(|| eval(s));
    PHASE.with(|p| p.set(0));
    ensure!(r.is_ok(), format!("{}/panic", site), "{:?} panicked on inputs {:?}: {}", s.stream, s.ins, r.unwrap_err());
    let (first, second) = r.unwrap();
    let alt_read = ALT_READ.with(|a| a.borrow_mut().take());
    if s.stream == SK::DeMorgan {
        ensure!(out_same(&first, &second), format!("{}/duality", site), "not(and(a,b)) = {:?} but or(not a, not b) = {:?} for inputs {:?}", first, second, s.ins);
    } else {
        ensure!(out_same(&first, &second), format!("{}/second-read", site), "{:?}: first read {:?}, second read {:?}", s.stream, first, second);
        let want = model(s);
        ensure!(want.iter().any(|w| out_same(w, &first)), format!("{}/outcome", site), "{:?} on inputs {:?} (clock {:?}, limit {}, payload {}) returned {:?}; documented outcome: {:?}", s.stream, s.ins, if s.clock_ok { Ok(s.clock_t) } else { Err(9) }, s.limit, if s.quantity { "Quantity" } else { "f32" }, first, want);
        // statelessness: the same stream object, read again after its inputs' values changed (categories and timestamps the
        // same), returns what a freshly built stream returns on those inputs - no read leaves anything behind
        if let Some(z) = alt_read {
            let mut alt = s.clone();
            alt.ins = s.ins.iter().map(alt_in).collect();
            let fresh = catch(|| eval(&alt));
            if let Ok((fresh, _)) = fresh {
                ensure!(out_same(&z, &fresh), format!("{}/stale-after-input-change", site), "{:?}: after the inputs' values changed (same timestamps) the long-lived stream returns {:?}, a freshly built one {:?}; before the change it returned {:?}; inputs {:?}", s.stream, z, fresh, first, s.ins);
            }
        }
        // two-input forms agree with the n-ary ones
        if matches!(s.stream, SK::Sum2 | SK::Product2) {
            let mut n = s.clone();
            n.stream = if s.stream == SK::Sum2 { SK::SumN } else { SK::ProductN };
            let (nf, _) = eval(&n);
            ensure!(out_same(&nf, &first), format!("{}/vs-n-ary", site), "{:?} returns {:?} but the n-ary stream on the same two inputs returns {:?}", s.stream, first, nf);
        }
    }
    let cats: Vec<u8> = s.ins.iter().map(|i| i.cat & 3).collect();
    let non_present = cats.iter().any(|c| *c != 3);
    // order type of the timestamps
    let mut order: Vec<i8> = Vec::new();
    for a in &s.ins {
        for b in &s.ins {
            order.push(a.t.cmp(&b.t) as i8);
        }
    }
    let age = if s.stream == SK::Expirer && !s.ins.is_empty() { ((s.clock_t as i128 - s.ins[0].t as i128).cmp(&(s.limit as i128)) as i8, s.clock_ok) } else { (0, s.clock_ok) };
    let nontrivial = non_present && (s.ins.len() >= 2 || arity_range(s.stream).1 == 1) || !s.clock_ok;
    Ok(CaseInfo::new(nontrivial, hash_of(&(s.stream, cats, order, age, s.quantity, s.ins.iter().map(|i| i.b).collect::<Vec<_>>())))
        .class_if(first.is_err(), "outcome: error")
        .class_if(matches!(first, Ok(None)), "outcome: absent")
        .class_if(matches!(first, Ok(Some(_))), "outcome: present"))
}
pub fn check(s: &Scenario) -> CheckResult {
    check_with(s, "C02")
}

/// all weak orderings (ordered set partitions) of k items as rank vectors
pub fn weak_orders(k: usize) -> Vec<Vec<u8>> {
    let mut out = Vec::new();
    let total = (k as u32).pow(k as u32).max(1) as usize;
    for code in 0..total {
        let mut c = code;
        let mut r = Vec::with_capacity(k);
        for _ in 0..k {
            r.push((c % k.max(1)) as u8);
            c /= k.max(1);
        }
        let m = r.iter().copied().max().map(|x| x + 1).unwrap_or(0);
        if (0..m).all(|x| r.contains(&x)) {
            out.push(r);
        }
    }
    out
}

const VALS: [f32; 8] = [1.5, -2.25, 0.1, 3.0, 1.0e-3, 7.0, -0.3, 2.5e3];

pub fn enumerate(max_nary: usize, sink: &mut dyn FnMut(Scenario)) -> u64 {
    let mut count = 0u64;
    for &stream in &ALL_SK {
        let (lo, hi) = arity_range(stream);
        let hi = hi.min(max_nary.max(3));
        for k in lo..=hi {
            let orders = if stream == SK::Expirer || k <= 1 { vec![vec![0u8; k]] } else { weak_orders(k) };
            let bool_inputs: usize = match stream {
                SK::And | SK::Or | SK::DeMorgan => 2,
                SK::Not | SK::If | SK::IfElse => 1,
                _ => 0,
            };
            let ncat = 4usize.pow(k as u32);
            for catcode in 0..ncat {
                for ord in &orders {
                    for bmask in 0..(1usize << bool_inputs) {
                        // clock / age variants
                        let clock_variants: Vec<(bool, i64)> = match stream {
                            SK::Expirer => vec![(true, 1_000 + 49), (true, 1_000 + 50), (true, 1_000 + 51), (false, 0)],
                            SK::NoneToValue | SK::ConstantGetter => vec![(true, 777), (false, 0)],
                            _ => vec![(true, 0)],
                        };
                        for (clock_ok, clock_t) in clock_variants {
                            for quantity in [false, true] {
                                if quantity && !matches!(stream, SK::SumN | SK::Sum2 | SK::ProductN | SK::Product2 | SK::Difference | SK::Quotient) {
                                    continue;
                                }
                                let mut c = catcode;
                                let ins: Vec<In> = (0..k)
                                    .map(|j| {
                                        let cat = (c % 4) as u8;
                                        c /= 4;
                                        In { cat, t: 1_000 + ord[j] as i64 * 10, v: VALS[(j + catcode + count as usize) % VALS.len()], b: j < bool_inputs && (bmask >> j) & 1 == 1 }
                                    })
                                    .collect();
                                sink(Scenario { stream, ins, quantity, clock_ok, clock_t, limit: 50, none_value: -9.5 });
                                count += 1;
                            }
                        }
                    }
                }
            }
        }
    }
    // special pairs: coincidences a random draw practically never produces (sign of zero, exact halves, powers of two,
    // equal and negated operands) for every two-input arithmetic stream, both present
    let special = [0.0f32, -0.0, 0.5, -0.5, 1.0, -1.0, 2.0, -2.0, 0.25, 3.0, 1.0e-3, 1.0e4, f32::MIN_POSITIVE, 1.0e-40, 3.0e38, -3.0e38];
    for &stream in &[SK::Sum2, SK::Product2, SK::Difference, SK::Quotient, SK::Exponent, SK::SumN, SK::ProductN] {
        for &a in &special {
            for &b in &special {
                for quantity in [false, true] {
                    if quantity && stream == SK::Exponent {
                        continue;
                    }
                    let ins = vec![In { cat: 3, t: 1000, v: a, b: false }, In { cat: 3, t: 1010, v: b, b: false }];
                    sink(Scenario { stream, ins, quantity, clock_ok: true, clock_t: 0, limit: 50, none_value: -9.5 });
                    count += 1;
                }
            }
        }
    }
    count
}

fn in_strategy(times: BoxedStrategy<i64>) -> BoxedStrategy<In> {
    (prop_oneof![1 => Just(0u8), 1 => Just(1u8), 2 => Just(2u8), 5 => Just(3u8)], times, gen::moderate(), any::<bool>()).prop_map(|(cat, t, v, b)| In { cat, t, v, b }).boxed()
}
pub fn scenario_strategy(times: BoxedStrategy<i64>, kinds: Vec<SK>) -> BoxedStrategy<Scenario> {
    proptest::sample::select(kinds)
        .prop_flat_map(move |stream| {
            let (lo, hi) = arity_range(stream);
            let hi = if hi == 5 { 8 } else { hi };
            (Just(stream), proptest::collection::vec(in_strategy(times.clone()), lo..=hi), any::<bool>(), proptest::bool::weighted(0.85), times.clone(), 0i64..100, gen::moderate())
        })
        .prop_map(|(stream, ins, quantity, clock_ok, clock_t, limit, none_value)| {
            let quantity = quantity && matches!(stream, SK::SumN | SK::Sum2 | SK::ProductN | SK::Product2 | SK::Difference | SK::Quotient);
            Scenario { stream, ins, quantity, clock_ok, clock_t, limit, none_value }
        })
        .boxed()
}

pub struct C02;
impl Property for C02 {
    const ID: &'static str = "C02";
    const RULE: &'static str = "exhaustive: every assignment of {Err(1), Err(2), None, Some} to the inputs of each of the 16 combinators (+ NoneGetter, ConstantGetter and the De Morgan relation), n-ary arities 1..4 (quick) / 1..5 (thorough), crossed with every weak ordering of the input timestamps, both boolean values, age {<,=,>} limit and clock {ok, err} where a clock exists, f32 and Quantity payloads; random: arities up to 8, random values/times. Oracle: table-driven reference from the rustdoc (errors first in input order, absent rules, exact left fold of present values, Kleene tables), second read == first read, Sum2/Product2 == n-ary, not(and) == or(not,not). Non-trivial = at least one Err/None among the inputs (arity >= 2 for multi-input streams) or an erroring clock; distinct = (stream, category vector, timestamp order type, age relation, booleans, payload type).";
    type Scenario = Scenario;
    fn strategy(_tier: Tier) -> BoxedStrategy<Scenario> {
        let times = prop_oneof![3 => 0i64..20, 2 => -1_000_000i64..1_000_000, 1 => -1_000_000_000_000_000i64..1_000_000_000_000_000].boxed();
        scenario_strategy(times, ALL_SK.to_vec())
    }
    fn cases(tier: Tier) -> u32 {
        tier.pick(60_000, 1_200_000)
    }
    fn exhaustive(tier: Tier, sink: &mut dyn FnMut(Scenario)) -> Vec<String> {
        let max_nary = tier.pick(4, 5);
        let n = enumerate(max_nary, sink);
        vec![format!("all category assignments x weak timestamp orders x booleans x clock/age variants x payload types, n-ary arity <= {} ({} cases)", max_nary, n)]
    }
    fn check(s: &Scenario) -> CheckResult {
        check(s)
    }
    fn assumptions() -> Vec<String> {
        vec!["If/IfElse consult only the selected branch and Expirer/NoneToValue consult the clock only when needed (as their rustdoc describes); an error of an input that is not consulted is not an 'input error'".into(), "newest-of ties: any newest candidate is accepted".into()]
    }
}
