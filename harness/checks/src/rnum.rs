//! Running-error numbers (DESIGN.md 3.2): `v` is the real-valued reference computed in f64, `e` a
//! rigorous bound on how far *any* f32 evaluation with the same data flow can be from `v`
//! (standard forward error analysis: every f32 operation adds u*(|v|+e_in), u = 2^-24).
use std::ops::{Add, Div, Mul, Neg, Sub};

pub const U: f64 = 5.960464477539063e-8; // 2^-24
const TINY: f64 = 1.401298464324817e-45; // 2^-149, subnormal quantum
const U64: f64 = 2.220446049250313e-16; // f64 rounding of the reference itself

#[derive(Clone, Copy, Debug)]
pub struct R {
    pub v: f64,
    pub e: f64,
}
impl R {
    /// An f32 datum taken as exact.
    pub fn exact(x: f32) -> R {
        R { v: x as f64, e: 0.0 }
    }
    /// A real constant that the f32 code represents exactly (0.5, 2.0, ...).
    pub fn c(x: f64) -> R {
        R { v: x, e: 0.0 }
    }
    pub const ZERO: R = R { v: 0.0, e: 0.0 };
    fn rounded(v: f64, e_in: f64) -> R {
        R { v, e: e_in + U * (v.abs() + e_in) + TINY + U64 * v.abs() }
    }
    /// `Quantity::from(Time(ns))`: i64 -> f32 (one rounding) then / 1e9 (second rounding).
    pub fn secs(ns: i64) -> R {
        let v = ns as f64 / 1e9;
        let e1 = U * v.abs(); // i64 -> f32
        R::rounded(v, e1 + 2.0 * U64 * v.abs())
    }
    pub fn abs(self) -> R {
        R { v: self.v.abs(), e: self.e }
    }
    pub fn is_finite(self) -> bool {
        self.v.is_finite() && self.e.is_finite()
    }
    /// is `x` within `slack * e` (plus `extra`) of the reference?
    pub fn admits(self, x: f32, slack: f64, extra: f64) -> bool {
        ((x as f64) - self.v).abs() <= slack * self.e + extra
    }
    /// ratio |x - v| / e (for head-room reporting); 0 when both are 0.
    pub fn ratio(self, x: f32) -> f64 {
        let d = ((x as f64) - self.v).abs();
        if d == 0.0 {
            0.0
        } else if self.e == 0.0 {
            f64::INFINITY
        } else {
            d / self.e
        }
    }
    /// widen the bound by an absolute amount (e.g. for documented ns truncation)
    pub fn widen(self, by: f64) -> R {
        R { v: self.v, e: self.e + by }
    }
    /// powf with first-order condition number; base > 0.
    pub fn powf(self, y: R) -> R {
        let v = self.v.powf(y.v);
        // d/dx x^y = y x^(y-1); d/dy x^y = ln(x) x^y ; allow 2 ulp for the library itself
        let ex = if self.v != 0.0 { (y.v * v / self.v).abs() * self.e } else { 0.0 };
        let ey = (self.v.ln() * v).abs() * y.e;
        let mut r = R::rounded(v, (ex + ey) * 1.01);
        r.e += 2.0 * U * v.abs();
        r
    }
}
impl Add for R {
    type Output = R;
    fn add(self, o: R) -> R {
        R::rounded(self.v + o.v, self.e + o.e)
    }
}
impl Sub for R {
    type Output = R;
    fn sub(self, o: R) -> R {
        R::rounded(self.v - o.v, self.e + o.e)
    }
}
impl Mul for R {
    type Output = R;
    fn mul(self, o: R) -> R {
        R::rounded(self.v * o.v, self.v.abs() * o.e + o.v.abs() * self.e + self.e * o.e)
    }
}
impl Div for R {
    type Output = R;
    fn div(self, o: R) -> R {
        let v = self.v / o.v;
        let den = o.v.abs() - o.e;
        if den <= 0.0 {
            return R { v, e: f64::INFINITY };
        }
        let e_in = (self.v.abs() * o.e + o.v.abs() * self.e) / (o.v.abs() * den);
        R::rounded(v, e_in)
    }
}
impl Neg for R {
    type Output = R;
    fn neg(self) -> R {
        R { v: -self.v, e: self.e }
    }
}

/// Tracks the worst observed |x - v| / e of a check, for the evidence file.
pub struct Headroom(std::sync::atomic::AtomicU64);
impl Headroom {
    pub const fn new() -> Self {
        Headroom(std::sync::atomic::AtomicU64::new(0))
    }
    pub fn observe(&self, ratio: f64) {
        if !ratio.is_finite() {
            return;
        }
        let bits = ratio.to_bits();
        // positive f64 order == bit order
        self.0.fetch_max(bits, std::sync::atomic::Ordering::Relaxed);
    }
    pub fn get(&self) -> f64 {
        f64::from_bits(self.0.load(std::sync::atomic::Ordering::Relaxed))
    }
}
