//! C03 — combined data carry the newest contributing timestamp; selection picks newest.
use crate::c02;
use crate::common::*;
use crate::ensure;
use proptest::prelude::*;
use rrtk::*;
use serde::{Deserialize, Serialize};
use std::cell::RefCell;

#[derive(Clone, Copy, Debug, Serialize, Deserialize, PartialEq, Eq, Hash)]
pub enum Payload {
    F32,
    Quantity,
    State,
    Command,
}
#[derive(Clone, Copy, Debug, Serialize, Deserialize, PartialEq, Eq, Hash)]
pub enum Rhs {
    /// Datum<T> op Datum<T>
    Datum,
    /// Datum<T> op T
    Scalar,
    /// Datum<State|Command> op Datum<f32>
    DatumF32,
    /// Datum<State|Command> op f32
    ScalarF32,
}
#[derive(Clone, Copy, Debug, Serialize, Deserialize, PartialEq, Eq, Hash)]
pub enum Form {
    /// op: 0 + 1 - 2 * 3 /
    Bin { payload: Payload, rhs: Rhs, op: u8, assign: bool },
    Neg(Payload),
    NotBool,
    Latest(Payload),
    ReplaceIfOlder,
    /// slot empty?
    ReplaceIfNoneOrOlder(bool),
    /// (slot empty?, candidate none?)
    ReplaceOption(bool, bool),
    /// terminal reads: 0 state mean, 1 command selection, 2 combined
    Terminal(u8),
    /// stream timestamp rules, through C02's driver and reference
    Stream,
    /// device updates (inverter, gear train, axle, differential): every state a device writes is stamped with the newest
    /// contributing read - through C08's driver and reference; only its timestamp verdicts are C03's business
    Device,
    /// command relay in device updates (a selection): what a terminal reads afterwards carries the newest timestamp present
    /// - through C13's driver; only its timestamp verdict is reported here
    DeviceCommands,
}
#[derive(Clone, Debug, Serialize, Deserialize)]
pub struct Scenario {
    pub t1: i64,
    pub t2: i64,
    pub a: f32,
    pub b: f32,
    pub k: u8,
    pub form: Form,
    pub stream: Option<c02::Scenario>,
    #[serde(default)]
    pub device: Option<crate::c08::Scenario>,
    #[serde(default)]
    pub chain: Option<crate::c13::Scenario>,
}

fn pd(k: u8) -> PositionDerivative {
    match k % 3 {
        0 => PositionDerivative::Position,
        1 => PositionDerivative::Velocity,
        _ => PositionDerivative::Acceleration,
    }
}
macro_rules! ops {
    ($x:expr, $y:expr, $op:expr, $assign:expr, [$($n:literal => $o:tt $oa:tt),*]) => {
        match ($op, $assign) {
            $(($n, false) => Some($x $o $y),
            ($n, true) => { let mut z = $x; z $oa $y; Some(z) })*
            _ => None,
        }
    };
}
trait Flat {
    fn flat(&self) -> Vec<f32>;
}
impl Flat for f32 {
    fn flat(&self) -> Vec<f32> {
        vec![*self]
    }
}
impl Flat for Quantity {
    fn flat(&self) -> Vec<f32> {
        vec![self.value]
    }
}
impl Flat for State {
    fn flat(&self) -> Vec<f32> {
        vec![self.position, self.velocity, self.acceleration]
    }
}
impl Flat for Command {
    fn flat(&self) -> Vec<f32> {
        vec![f32::from(*self), match PositionDerivative::from(*self) { PositionDerivative::Position => 0.0, PositionDerivative::Velocity => 1.0, PositionDerivative::Acceleration => 2.0 }]
    }
}
fn flat_eq(a: &[f32], b: &[f32]) -> bool {
    a.len() == b.len() && a.iter().zip(b).all(|(x, y)| bits_eq(*x, *y))
}

/// returns (time of result, flattened value of result, flattened expected value)
fn exec_bin(s: &Scenario, payload: Payload, rhs: Rhs, op: u8, assign: bool) -> Option<(Time, Vec<f32>, Vec<f32>)> {
    let (t1, t2) = (Time(s.t1), Time(s.t2));
    let (a, b) = (s.a, s.b);
    match (payload, rhs) {
        (Payload::F32, Rhs::Datum) => {
            let (x, y) = (Datum::new(t1, a), Datum::new(t2, b));
            let g = ops!(x, y, op, assign, [0 => + +=, 1 => - -=, 2 => * *=, 3 => / /=])?;
            let w = ops!(a, b, op, assign, [0 => + +=, 1 => - -=, 2 => * *=, 3 => / /=])?;
            Some((g.time, g.value.flat(), w.flat()))
        }
        (Payload::F32, Rhs::Scalar) => {
            let x = Datum::new(t1, a);
            let g = ops!(x, b, op, assign, [0 => + +=, 1 => - -=, 2 => * *=, 3 => / /=])?;
            let w = ops!(a, b, op, assign, [0 => + +=, 1 => - -=, 2 => * *=, 3 => / /=])?;
            Some((g.time, g.value.flat(), w.flat()))
        }
        (Payload::Quantity, Rhs::Datum) => {
            let (qa, qb) = (Quantity::new(a, MILLIMETER), Quantity::new(b, MILLIMETER));
            let (x, y) = (Datum::new(t1, qa), Datum::new(t2, qb));
            let g = ops!(x, y, op, assign, [0 => + +=, 1 => - -=, 2 => * *=, 3 => / /=])?;
            let w = ops!(qa, qb, op, assign, [0 => + +=, 1 => - -=, 2 => * *=, 3 => / /=])?;
            Some((g.time, g.value.flat(), w.flat()))
        }
        (Payload::Quantity, Rhs::Scalar) => {
            let (qa, qb) = (Quantity::new(a, MILLIMETER), Quantity::new(b, MILLIMETER));
            let x = Datum::new(t1, qa);
            let g = ops!(x, qb, op, assign, [0 => + +=, 1 => - -=, 2 => * *=, 3 => / /=])?;
            let w = ops!(qa, qb, op, assign, [0 => + +=, 1 => - -=, 2 => * *=, 3 => / /=])?;
            Some((g.time, g.value.flat(), w.flat()))
        }
        (Payload::State, Rhs::Datum) => {
            let (sa, sb) = (State::new_raw(a, b, a - b), State::new_raw(b, a * 0.5, 1.0));
            let (x, y) = (Datum::new(t1, sa), Datum::new(t2, sb));
            let g = ops!(x, y, op, assign, [0 => + +=, 1 => - -=])?;
            let w = ops!(sa, sb, op, assign, [0 => + +=, 1 => - -=])?;
            Some((g.time, g.value.flat(), w.flat()))
        }
        (Payload::State, Rhs::Scalar) => {
            let (sa, sb) = (State::new_raw(a, b, a - b), State::new_raw(b, a * 0.5, 1.0));
            let x = Datum::new(t1, sa);
            let g = ops!(x, sb, op, assign, [0 => + +=, 1 => - -=])?;
            let w = ops!(sa, sb, op, assign, [0 => + +=, 1 => - -=])?;
            Some((g.time, g.value.flat(), w.flat()))
        }
        (Payload::State, Rhs::DatumF32) => {
            let sa = State::new_raw(a, b, a - b);
            let (x, y) = (Datum::new(t1, sa), Datum::new(t2, b));
            let g = ops!(x, y, op, assign, [2 => * *=, 3 => / /=])?;
            let w = ops!(sa, b, op, assign, [2 => * *=, 3 => / /=])?;
            Some((g.time, g.value.flat(), w.flat()))
        }
        (Payload::State, Rhs::ScalarF32) => {
            let sa = State::new_raw(a, b, a - b);
            let x = Datum::new(t1, sa);
            let g = ops!(x, b, op, assign, [2 => * *=, 3 => / /=])?;
            let w = ops!(sa, b, op, assign, [2 => * *=, 3 => / /=])?;
            Some((g.time, g.value.flat(), w.flat()))
        }
        (Payload::Command, Rhs::Datum) => {
            let (ca, cb) = (Command::new(pd(s.k), a), Command::new(pd(s.k), b));
            let (x, y) = (Datum::new(t1, ca), Datum::new(t2, cb));
            let g = ops!(x, y, op, assign, [0 => + +=, 1 => - -=])?;
            let w = ops!(ca, cb, op, assign, [0 => + +=, 1 => - -=])?;
            Some((g.time, g.value.flat(), w.flat()))
        }
        (Payload::Command, Rhs::Scalar) => {
            let (ca, cb) = (Command::new(pd(s.k), a), Command::new(pd(s.k), b));
            let x = Datum::new(t1, ca);
            let g = ops!(x, cb, op, assign, [0 => + +=, 1 => - -=])?;
            let w = ops!(ca, cb, op, assign, [0 => + +=, 1 => - -=])?;
            Some((g.time, g.value.flat(), w.flat()))
        }
        (Payload::Command, Rhs::DatumF32) => {
            let ca = Command::new(pd(s.k), a);
            let (x, y) = (Datum::new(t1, ca), Datum::new(t2, b));
            let g = ops!(x, y, op, assign, [2 => * *=, 3 => / /=])?;
            let w = ops!(ca, b, op, assign, [2 => * *=, 3 => / /=])?;
            Some((g.time, g.value.flat(), w.flat()))
        }
        (Payload::Command, Rhs::ScalarF32) => {
            let ca = Command::new(pd(s.k), a);
            let x = Datum::new(t1, ca);
            let g = ops!(x, b, op, assign, [2 => * *=, 3 => / /=])?;
            let w = ops!(ca, b, op, assign, [2 => * *=, 3 => / /=])?;
            Some((g.time, g.value.flat(), w.flat()))
        }
        _ => None,
    }
}

pub fn bin_forms() -> Vec<Form> {
    let probe = Scenario { t1: 0, t2: 1, a: 1.0, b: 2.0, k: 0, form: Form::NotBool, stream: None, device: None, chain: None };
    let mut v = Vec::new();
    for payload in [Payload::F32, Payload::Quantity, Payload::State, Payload::Command] {
        for rhs in [Rhs::Datum, Rhs::Scalar, Rhs::DatumF32, Rhs::ScalarF32] {
            for op in 0..4u8 {
                for assign in [false, true] {
                    if exec_bin(&probe, payload, rhs, op, assign).is_some() {
                        v.push(Form::Bin { payload, rhs, op, assign });
                    }
                }
            }
        }
    }
    v
}
pub fn other_forms() -> Vec<Form> {
    let mut v = vec![Form::NotBool, Form::ReplaceIfOlder];
    for p in [Payload::F32, Payload::Quantity, Payload::State, Payload::Command] {
        v.push(Form::Neg(p));
        v.push(Form::Latest(p));
    }
    for e in [false, true] {
        v.push(Form::ReplaceIfNoneOrOlder(e));
        for c in [false, true] {
            v.push(Form::ReplaceOption(e, c));
        }
    }
    v.extend((0..3).map(Form::Terminal));
    v
}

type T<'a> = RefCell<Terminal<'a, u8>>;

pub fn check(s: &Scenario) -> CheckResult {
    let (t1, t2) = (Time(s.t1), Time(s.t2));
    let newest = if s.t1 >= s.t2 { t1 } else { t2 };
    let site = format!("C03/{:?}", s.form);
    match s.form {
        Form::Bin { payload, rhs, op, assign } => {
            let r = exec_bin(s, payload, rhs, op, assign);
            let (time, got, want) = r.expect("form list contains only implemented combinations");
            let want_time = if matches!(rhs, Rhs::Datum | Rhs::DatumF32) { newest } else { t1 };
            ensure!(time == want_time, format!("{}/time", site), "{:?} on data stamped {} and {}: result stamped {:?}, expected {:?}", s.form, s.t1, s.t2, time, want_time);
            ensure!(flat_eq(&got, &want), format!("{}/value", site), "{:?}: value {:?}, the operator on the payloads gives {:?}", s.form, got, want);
        }
        Form::Neg(p) => {
            let (time, ok) = match p {
                Payload::F32 => {
                    let g = -Datum::new(t1, s.a);
                    (g.time, bits_eq(g.value, -s.a))
                }
                Payload::Quantity => {
                    let g = -Datum::new(t1, Quantity::new(s.a, MILLIMETER));
                    (g.time, bits_eq(g.value.value, -s.a))
                }
                Payload::State => {
                    let g = -Datum::new(t1, State::new_raw(s.a, s.b, 1.0));
                    (g.time, flat_eq(&g.value.flat(), &[-s.a, -s.b, -1.0]))
                }
                Payload::Command => {
                    let g = -Datum::new(t1, Command::new(pd(s.k), s.a));
                    (g.time, flat_eq(&g.value.flat(), &Command::new(pd(s.k), -s.a).flat()))
                }
            };
            ensure!(time == t1 && ok, format!("{}/neg", site), "negating a datum stamped {} changed its time to {:?} or gave a wrong value", s.t1, time);
        }
        Form::NotBool => {
            let v = s.k & 1 == 1;
            let g = !Datum::new(t1, v);
            ensure!(g.time == t1 && g.value == !v, format!("{}/not", site), "!Datum({}, {}) = {:?}", s.t1, v, g);
        }
        Form::Latest(p) => {
            // selection: result is one of the candidates, none strictly newer
            macro_rules! sel {
                ($x:expr, $y:expr) => {{
                    let (x, y) = (Datum::new(t1, $x), Datum::new(t2, $y));
                    let g = latest(x, y);
                    (g.time, g == x, g == y)
                }};
            }
            let (time, is_x, is_y) = match p {
                Payload::F32 => sel!(s.a, s.b),
                Payload::Quantity => sel!(Quantity::new(s.a, MILLIMETER), Quantity::new(s.b, MILLIMETER)),
                Payload::State => sel!(State::new_raw(s.a, 0.0, 0.0), State::new_raw(s.b, 1.0, 0.0)),
                Payload::Command => sel!(Command::new(pd(s.k), s.a), Command::new(pd(s.k + 1), s.b)),
            };
            ensure!(is_x || is_y, format!("{}/not-a-candidate", site), "latest() returned something that is neither argument");
            ensure!(time >= t1 && time >= t2, format!("{}/older", site), "latest() of data stamped {} and {} returned the one stamped {:?}", s.t1, s.t2, time);
        }
        Form::ReplaceIfOlder => {
            let mut slot = Datum::new(t1, s.a);
            let cand = Datum::new(t2, s.b);
            let r = slot.replace_if_older_than(cand);
            let should = s.t2 > s.t1;
            ensure!(r == should, format!("{}/report", site), "replace_if_older_than(slot {}, candidate {}) returned {}", s.t1, s.t2, r);
            let want = if should { cand } else { Datum::new(t1, s.a) };
            ensure!(slot.time == want.time && bits_eq(slot.value, want.value), format!("{}/slot", site), "replace_if_older_than(slot {}, candidate {}): slot is now {:?}", s.t1, s.t2, slot);
        }
        Form::ReplaceIfNoneOrOlder(empty) => {
            let mut slot = if empty { None } else { Some(Datum::new(t1, s.a)) };
            let cand = Datum::new(t2, s.b);
            let r = slot.replace_if_none_or_older_than(cand);
            let should = empty || s.t2 > s.t1;
            ensure!(r == should, format!("{}/report", site), "replace_if_none_or_older_than(slot {}, candidate {}) returned {}", if empty { "None".to_string() } else { s.t1.to_string() }, s.t2, r);
            let want = if should { cand } else { Datum::new(t1, s.a) };
            ensure!(matches!(slot, Some(d) if d.time == want.time && bits_eq(d.value, want.value)), format!("{}/slot", site), "slot is now {:?}, expected {:?}", slot, want);
        }
        Form::ReplaceOption(empty, cand_none) => {
            let orig = if empty { None } else { Some(Datum::new(t1, s.a)) };
            let mut slot = orig;
            let cand = if cand_none { None } else { Some(Datum::new(t2, s.b)) };
            let r = slot.replace_if_none_or_older_than_option(cand);
            let should = !cand_none && (empty || s.t2 > s.t1);
            ensure!(r == should, format!("{}/report", site), "replace_if_none_or_older_than_option(slot {:?}, candidate {:?}) returned {}", orig, cand, r);
            let want = if should { cand } else { orig };
            let same = match (slot, want) {
                (None, None) => true,
                (Some(x), Some(y)) => x.time == y.time && bits_eq(x.value, y.value),
                _ => false,
            };
            ensure!(same, format!("{}/slot", site), "slot is now {:?}, expected {:?}", slot, want);
        }
        Form::Terminal(which) => {
            let (x, y): (T, T) = (Terminal::new(), Terminal::new());
            connect(&x, &y);
            // every third case: the two sides hold exactly equal states (only the timestamps differ)
            let (sa, sb) = if s.k % 3 == 2 { (State::new_raw(s.a, 1.0, 0.0), State::new_raw(s.a, 1.0, 0.0)) } else { (State::new_raw(s.a, 1.0, 0.0), State::new_raw(s.b, -1.0, 0.5)) };
            let (ca, cb) = (Command::new(pd(s.k), s.a), Command::new(pd(s.k + 1), s.b));
            <Terminal<u8> as Settable<Datum<State>, u8>>::set(&mut x.borrow_mut(), Datum::new(t1, sa)).unwrap();
            <Terminal<u8> as Settable<Datum<State>, u8>>::set(&mut y.borrow_mut(), Datum::new(t2, sb)).unwrap();
            <Terminal<u8> as Settable<Datum<Command>, u8>>::set(&mut x.borrow_mut(), Datum::new(t1, ca)).unwrap();
            <Terminal<u8> as Settable<Datum<Command>, u8>>::set(&mut y.borrow_mut(), Datum::new(t2, cb)).unwrap();
            match which % 3 {
                0 => {
                    for t in [&x, &y] {
                        let g = <Terminal<u8> as Getter<State, u8>>::get(&t.borrow()).unwrap().unwrap();
                        ensure!(g.time == newest, format!("{}/state-time", site), "mean of states stamped {} and {} is stamped {:?}", s.t1, s.t2, g.time);
                    }
                }
                1 => {
                    for t in [&x, &y] {
                        let g = <Terminal<u8> as Getter<Command, u8>>::get(&t.borrow()).unwrap().unwrap();
                        ensure!(g == Datum::new(t1, ca) || g == Datum::new(t2, cb), format!("{}/command-candidate", site), "command read {:?} is neither side's command", g);
                        ensure!(g.time >= t1 && g.time >= t2, format!("{}/command-older", site), "command read stamped {:?} although commands stamped {} and {} exist", g.time, s.t1, s.t2);
                    }
                }
                _ => {
                    let g = <Terminal<u8> as Getter<TerminalData, u8>>::get(&x.borrow()).unwrap().unwrap();
                    ensure!(g.time == newest && g.value.time == newest, format!("{}/data-time", site), "combined read stamped {:?}, the state's time is {:?}", g.time, newest);
                }
            }
        }
        Form::Stream => {
            let inner = s.stream.as_ref().expect("stream scenario");
            let r = c02::check_with(inner, "C03/stream")?;
            return Ok(CaseInfo::new(true, r.key).class("stream timestamp rule"));
        }
        Form::DeviceCommands => {
            let inner = s.chain.as_ref().expect("chain scenario");
            return match crate::c13::check(inner) {
                Err(v) if v.key.ends_with("relay-time") => Err(Violation::new(format!("C03/device/{}", v.key.trim_start_matches("C13/")), v.message)),
                Err(_) => Ok(CaseInfo::new(false, 0)),
                Ok(info) => Ok(CaseInfo::new(info.nontrivial, info.key ^ 0xC0).class("device command relay timestamp rule")),
            };
        }
        Form::Device => {
            let inner = s.device.as_ref().expect("device scenario");
            return match crate::c08::check(inner) {
                Err(v) if v.key.ends_with("time") => Err(Violation::new(format!("C03/device/{}", v.key.trim_start_matches("C08/")), v.message)),
                // any other verdict (values, constraint) is C08's to report
                Err(_) => Ok(CaseInfo::new(false, 0)),
                Ok(info) => Ok(CaseInfo::new(info.nontrivial, info.key ^ 0xD0).class("device update timestamp rule")),
            };
        }
    }
    let rel = s.t1.cmp(&s.t2) as i8;
    let extreme = |t: i64| t <= i64::MIN + 1 || t >= i64::MAX - 1;
    let adjacent = (s.t1 as i128 - s.t2 as i128).abs() <= 1;
    let nontrivial = s.t1 != s.t2 || extreme(s.t1);
    Ok(CaseInfo::new(nontrivial, hash_of(&(s.form, rel, extreme(s.t1), extreme(s.t2), adjacent, if adjacent || extreme(s.t1) || extreme(s.t2) { (s.t1, s.t2) } else { (0, 0) })))
        .class_if(s.t1 == s.t2, "equal timestamps")
        .class_if(adjacent && s.t1 != s.t2, "adjacent timestamps")
        .class_if(extreme(s.t1) || extreme(s.t2), "near-extreme i64 timestamp"))
}

const GRID: [i64; 7] = [i64::MIN, i64::MIN + 1, -1, 0, 1, i64::MAX - 1, i64::MAX];

fn time_pair() -> BoxedStrategy<(i64, i64)> {
    let any_t = prop_oneof![2 => any::<i64>(), 2 => proptest::sample::select(GRID.to_vec()), 2 => -1000i64..1000].boxed();
    prop_oneof![
        3 => (any_t.clone(), any_t.clone()),
        2 => any_t.clone().prop_map(|t| (t, t)),
        2 => (any_t.clone(), prop_oneof![Just(1i64), Just(-1i64)]).prop_map(|(t, d)| (t, t.saturating_add(d))),
    ]
    .boxed()
}

pub struct C03;
impl Property for C03 {
    const ID: &'static str = "C03";
    const RULE: &'static str = "exhaustive: the 7x7 pairs of the timestamp grid {i64::MIN, MIN+1, -1, 0, 1, MAX-1, MAX} x every Datum operator form (Datum op Datum, Datum op scalar, assign forms, State/Command x Datum<f32>/f32) for payloads f32, Quantity, State, Command, plus Neg/Not, latest(), the three replace helpers (slot empty/full, candidate none/some) and terminal state/command/combined reads; random: arbitrary i64 pairs, equal pairs, adjacent pairs; the timestamp-combining/selecting streams (difference, quotient, exponent, and, or, newest-of, n-ary sum/product, 2-ary sum/product) through C02's driver with extreme timestamps. Oracle: combination => time == max of contributing operands, scalar => unchanged, selection => a candidate with no strictly newer candidate, replace helpers replace iff strictly newer or empty and report truthfully; values equal the payload operator bitwise. Non-trivial = timestamps differ or lie at an i64 extreme; distinct = (form, order relation, extreme/adjacent cell).";
    type Scenario = Scenario;
    fn strategy(_tier: Tier) -> BoxedStrategy<Scenario> {
        let mut forms = bin_forms();
        forms.extend(other_forms());
        let direct = (time_pair(), gen::moderate(), gen::moderate_nonzero(), 0u8..3, proptest::sample::select(forms)).prop_map(|((t1, t2), a, b, k, form)| Scenario { t1, t2, a, b, k, form, stream: None, device: None, chain: None });
        let times = prop_oneof![3 => proptest::sample::select(GRID.to_vec()), 2 => any::<i64>(), 2 => -3i64..3].boxed();
        let kinds = vec![c02::SK::SumN, c02::SK::Sum2, c02::SK::ProductN, c02::SK::Product2, c02::SK::Difference, c02::SK::Quotient, c02::SK::Exponent, c02::SK::And, c02::SK::Or, c02::SK::Not, c02::SK::LatestN, c02::SK::DeMorgan];
        let streams = c02::scenario_strategy(times, kinds).prop_map(|inner| Scenario { t1: 0, t2: 0, a: 0.0, b: 0.0, k: 0, form: Form::Stream, stream: Some(inner), device: None, chain: None });
        let devices = <crate::c08::C08 as Property>::strategy(_tier).prop_map(|inner| Scenario { t1: 0, t2: 0, a: 0.0, b: 0.0, k: 0, form: Form::Device, stream: None, device: Some(inner), chain: None });
        let chains = <crate::c13::C13 as Property>::strategy(_tier).prop_map(|inner| Scenario { t1: 0, t2: 0, a: 0.0, b: 0.0, k: 0, form: Form::DeviceCommands, stream: None, device: None, chain: Some(inner) });
        prop_oneof![12 => direct, 8 => streams, 2 => devices, 1 => chains].boxed()
    }
    fn cases(tier: Tier) -> u32 {
        tier.pick(80_000, 1_200_000)
    }
    fn exhaustive(_tier: Tier, sink: &mut dyn FnMut(Scenario)) -> Vec<String> {
        let mut forms = bin_forms();
        let nb = forms.len();
        forms.extend(other_forms());
        let mut n = 0u64;
        for &t1 in &GRID {
            for &t2 in &GRID {
                for &form in &forms {
                    for k in 0..3u8 {
                        sink(Scenario { t1, t2, a: 1.5 + k as f32, b: -0.75, k, form, stream: None, device: None, chain: None });
                        n += 1;
                    }
                }
            }
        }
        vec![format!("7x7 grid timestamp pairs x {} datum operator forms + {} helper/selection/terminal forms x 3 payload variants ({} cases)", nb, forms.len() - nb, n)]
    }
    fn check(s: &Scenario) -> CheckResult {
        check(s)
    }
    fn assumptions() -> Vec<String> {
        vec!["timestamp ties in a selection: any newest candidate is accepted".into(), "for and/or the contributing values are the present inputs (the reading the rustdoc truth tables imply)".into(), "device-update timestamps are asserted by the C08/C13 checks, terminal reads also by C09".into()]
    }
}
