//! C14 — State kinematics and State/Command/Quantity conversions are exact and consistent.
use crate::common::*;
use crate::ensure;
use crate::rnum::{Headroom, R};
use proptest::prelude::*;
use rrtk::*;
use serde::{Deserialize, Serialize};

#[derive(Clone, Copy, Debug, Serialize, Deserialize, PartialEq, Eq, Hash)]
pub enum Form {
    Update,
    /// 0 position, 1 velocity, 2 acceleration
    Setter(u8),
    CommandFromState,
    CommandAccessors,
    StateNew,
    /// 0 + 1 - 2 *f32 3 /f32 4 neg, +5 = assign form
    StateArith(u8),
    CommandArith(u8),
}
#[derive(Clone, Debug, Serialize, Deserialize)]
pub struct Scenario {
    pub s1: [f32; 3],
    pub s2: [f32; 3],
    pub dt: i64,
    pub k1: u8,
    pub k2: u8,
    pub v: f32,
    pub w: f32,
    pub unit: (i8, i8),
    pub form: Form,
}
static HEADROOM: Headroom = Headroom::new();

fn pd(k: u8) -> PositionDerivative {
    match k % 3 {
        0 => PositionDerivative::Position,
        1 => PositionDerivative::Velocity,
        _ => PositionDerivative::Acceleration,
    }
}
fn pd_unit(k: u8) -> (i8, i8) {
    match k % 3 {
        0 => (1, 0),
        1 => (1, -1),
        _ => (1, -2),
    }
}
fn st(a: [f32; 3]) -> State {
    State::new_raw(a[0], a[1], a[2])
}
fn st_bits_eq(a: State, b: State) -> bool {
    bits_eq(a.position, b.position) && bits_eq(a.velocity, b.velocity) && bits_eq(a.acceleration, b.acceleration)
}
fn st_same(a: State, b: State) -> bool {
    same_f32(a.position, b.position) && same_f32(a.velocity, b.velocity) && same_f32(a.acceleration, b.acceleration)
}

pub fn check(s: &Scenario) -> CheckResult {
    let mut nontrivial = false;
    match s.form {
        Form::Update => {
            let [p, v, a] = s.s1;
            let mut state = st(s.s1);
            state.update(Time(s.dt));
            ensure!(bits_eq(state.acceleration, a), "C14/update/acceleration", "update({}) changed the acceleration {:e} -> {:e}", s.dt, a, state.acceleration);
            if s.dt == 0 {
                ensure!(st_same(state, st(s.s1)), "C14/update/zero-dt", "update(0) is not the identity: {:?} -> {:?}", st(s.s1), state);
            }
            let (rp, rv, ra, dts) = (R::exact(p), R::exact(v), R::exact(a), R::secs(s.dt));
            let nv = rv + dts * ra;
            let np = rp + dts * (rv + nv) / R::c(2.0);
            let t = s.dt as f64 / 1e9;
            let want_v = v as f64 + a as f64 * t;
            let want_p = p as f64 + v as f64 * t + a as f64 * t * t / 2.0;
            let (ev, ep) = (R { v: want_v, e: nv.e }, R { v: want_p, e: np.e });
            // intermediates of the f32 evaluation must stay well inside the f32 range for the bound to mean anything
            let inter = [dts * ra, nv, rv / R::c(2.0) + nv / R::c(2.0), dts * (rv / R::c(2.0) + nv / R::c(2.0)), ev, ep];
            if inter.iter().any(|r| !(r.v.abs() < 3.0e38)) || !(ev.is_finite() && ep.is_finite()) {
                return Ok(CaseInfo::new(false, 0).class("update: reference overflows f32 range (skipped)"));
            }
            HEADROOM.observe(ev.ratio(state.velocity));
            HEADROOM.observe(ep.ratio(state.position));
            ensure!(ev.admits(state.velocity, 4.0, 0.0), "C14/update/velocity", "state {:?} advanced by {} ns: velocity {:e}, expected v + a*dt = {:e} (bound {:e})", s.s1, s.dt, state.velocity, want_v, 4.0 * ev.e);
            ensure!(ep.admits(state.position, 4.0, 0.0), "C14/update/position", "state {:?} advanced by {} ns: position {:e}, expected p + v*dt + a*dt^2/2 = {:e} (bound {:e})", s.s1, s.dt, state.position, want_p, 4.0 * ep.e);
            nontrivial = s.dt < 0 || a != 0.0;
        }
        Form::Setter(k) => {
            let k = k % 3;
            let orig = st(s.s1);
            let q = Quantity::new(s.v, Unit::new(s.unit.0, s.unit.1));
            let mut state = orig;
            let r = match k {
                0 => state.set_constant_position(q),
                1 => state.set_constant_velocity(q),
                _ => state.set_constant_acceleration(q),
            };
            let expect = |val: f32| match k {
                0 => State::new_raw(val, 0.0, 0.0),
                1 => State::new_raw(orig.position, val, 0.0),
                _ => State::new_raw(orig.position, orig.velocity, val),
            };
            if s.unit == pd_unit(k) {
                ensure!(r.is_ok(), format!("C14/setter{}/rejected", k), "setter {} rejected a correctly dimensioned argument", k);
                ensure!(st_bits_eq(state, expect(s.v)), format!("C14/setter{}/effect", k), "setter {} with {:e} on {:?} gave {:?}, expected {:?}", k, s.v, orig, state, expect(s.v));
            } else {
                ensure!(r.is_err(), format!("C14/setter{}/accepted", k), "setter {} accepted an argument of unit {:?}", k, s.unit);
                ensure!(st_bits_eq(state, orig), format!("C14/setter{}/touched", k), "setter {} rejected its argument but changed the state {:?} -> {:?}", k, orig, state);
                nontrivial = true;
            }
            let mut raw = orig;
            match k {
                0 => raw.set_constant_position_raw(s.v),
                1 => raw.set_constant_velocity_raw(s.v),
                _ => raw.set_constant_acceleration_raw(s.v),
            }
            ensure!(st_bits_eq(raw, expect(s.v)), format!("C14/setter{}/raw", k), "raw setter {} with {:e} on {:?} gave {:?}", k, s.v, orig, raw);
            // the value the state already holds in that component is an argument like any other: the higher derivatives are still zeroed
            let held = [orig.position, orig.velocity, orig.acceleration][k as usize];
            let (mut again, mut again_raw) = (orig, orig);
            let pu = pd_unit(k);
            let r = match k {
                0 => again.set_constant_position(Quantity::new(held, Unit::new(pu.0, pu.1))),
                1 => again.set_constant_velocity(Quantity::new(held, Unit::new(pu.0, pu.1))),
                _ => again.set_constant_acceleration(Quantity::new(held, Unit::new(pu.0, pu.1))),
            };
            match k {
                0 => again_raw.set_constant_position_raw(held),
                1 => again_raw.set_constant_velocity_raw(held),
                _ => again_raw.set_constant_acceleration_raw(held),
            }
            ensure!(r.is_ok() && st_bits_eq(again, expect(held)), format!("C14/setter{}/effect", k), "setter {} with the value {:e} the state {:?} already holds there returned {:?} and gave {:?}, expected {:?}", k, held, orig, r, again, expect(held));
            ensure!(st_bits_eq(again_raw, expect(held)), format!("C14/setter{}/raw", k), "raw setter {} with the value {:e} the state {:?} already holds there gave {:?}, expected {:?}", k, held, orig, again_raw, expect(held));
        }
        Form::CommandFromState => {
            let [p, v, a] = s.s1;
            let c = Command::from(st(s.s1));
            let want = if a != 0.0 { Command::Acceleration(a) } else if v != 0.0 { Command::Velocity(v) } else { Command::Position(p) };
            ensure!(PositionDerivative::from(c) == PositionDerivative::from(want) && bits_eq(f32::from(c), f32::from(want)), "C14/command-from-state", "Command::from({:?}) = {:?}, the lowest non-zero derivative is {:?}", s.s1, c, want);
            nontrivial = a == 0.0;
        }
        Form::CommandAccessors => {
            let k = s.k1 % 3;
            let c = Command::new(pd(k), s.v);
            let shape_ok = match (k, c) {
                (0, Command::Position(x)) | (1, Command::Velocity(x)) | (2, Command::Acceleration(x)) => bits_eq(x, s.v),
                _ => false,
            };
            ensure!(shape_ok, "C14/command/new", "Command::new({:?}, {:e}) = {:?}", pd(k), s.v, c);
            ensure!(PositionDerivative::from(c) == pd(k), "C14/command/kind", "kind of {:?} reported as {:?}", c, PositionDerivative::from(c));
            ensure!(bits_eq(f32::from(c), s.v), "C14/command/raw", "f32::from({:?}) = {:e}", c, f32::from(c));
            let q = Quantity::from(c);
            let u = pd_unit(k);
            ensure!(q.unit == Unit::new(u.0, u.1) && bits_eq(q.value, s.v), "C14/command/quantity", "Quantity::from({:?}) = {:?}", c, q);
            let back = Command::try_from(q);
            ensure!(back.is_ok() && PositionDerivative::from(back.unwrap()) == pd(k) && bits_eq(f32::from(back.unwrap()), s.v), "C14/command/round-trip", "Command::try_from(Quantity::from({:?})) = {:?}", c, back);
            let (gp, gv, ga) = (c.get_position(), c.get_velocity(), c.get_acceleration());
            let q_is = |q: Option<Quantity>, val: f32, u: (i8, i8)| matches!(q, Some(q) if q.unit == Unit::new(u.0, u.1) && bits_eq(q.value, val));
            let ok = match k {
                0 => q_is(gp, s.v, (1, 0)) && q_is(gv, 0.0, (1, -1)) && q_is(Some(ga), 0.0, (1, -2)),
                1 => gp.is_none() && q_is(gv, s.v, (1, -1)) && q_is(Some(ga), 0.0, (1, -2)),
                _ => gp.is_none() && gv.is_none() && q_is(Some(ga), s.v, (1, -2)),
            };
            ensure!(ok, "C14/command/accessors", "{:?}: get_position {:?}, get_velocity {:?}, get_acceleration {:?}", c, gp, gv, ga);
            nontrivial = true;
        }
        Form::StateNew => {
            let [p, v, a] = s.s1;
            let good = catch(|| State::new(Quantity::new(p, MILLIMETER), Quantity::new(v, MILLIMETER_PER_SECOND), Quantity::new(a, MILLIMETER_PER_SECOND_SQUARED)));
            ensure!(matches!(good, Ok(x) if st_bits_eq(x, st(s.s1))), "C14/state-new", "State::new with correct units gave {:?}", good);
            let state = st(s.s1);
            let (gp, gv, ga) = (state.get_position(), state.get_velocity(), state.get_acceleration());
            ensure!(gp.unit == MILLIMETER && bits_eq(gp.value, p) && gv.unit == MILLIMETER_PER_SECOND && bits_eq(gv.value, v) && ga.unit == MILLIMETER_PER_SECOND_SQUARED && bits_eq(ga.value, a), "C14/state-getters", "getters of {:?}: {:?} {:?} {:?}", state, gp, gv, ga);
            for k in 0..3u8 {
                let g = state.get_value(pd(k));
                let u = pd_unit(k);
                ensure!(g.unit == Unit::new(u.0, u.1) && bits_eq(g.value, s.s1[k as usize]), "C14/state-get-value", "get_value({:?}) of {:?} = {:?}", pd(k), state, g);
            }
            if s.unit != (1, 0) {
                let bad = catch(|| State::new(Quantity::new(p, Unit::new(s.unit.0, s.unit.1)), Quantity::new(v, MILLIMETER_PER_SECOND), Quantity::new(a, MILLIMETER_PER_SECOND_SQUARED)));
                ensure!(bad.is_err(), "C14/state-new-unit", "State::new accepted a position of unit {:?}", s.unit);
            }
            nontrivial = true;
        }
        Form::StateArith(op) => {
            let (x, y) = (st(s.s1), st(s.s2));
            let f = s.w;
            let assign = op % 10 >= 5;
            let o = op % 5;
            let got = match (o, assign) {
                (0, false) => x + y,
                (1, false) => x - y,
                (2, false) => x * f,
                (3, false) => x / f,
                (4, _) => -x,
                (0, true) => {
                    let mut z = x;
                    z += y;
                    z
                }
                (1, true) => {
                    let mut z = x;
                    z -= y;
                    z
                }
                (2, true) => {
                    let mut z = x;
                    z *= f;
                    z
                }
                _ => {
                    let mut z = x;
                    z /= f;
                    z
                }
            };
            let c = |a: f32, b: f32| match o {
                0 => a + b,
                1 => a - b,
                2 => a * f,
                3 => a / f,
                _ => -a,
            };
            let want = State::new_raw(c(x.position, y.position), c(x.velocity, y.velocity), c(x.acceleration, y.acceleration));
            ensure!(st_bits_eq(got, want), format!("C14/state-arith/{}", op % 10), "state op {} on {:?}, {:?}, {:e}: got {:?}, component-wise result is {:?}", op % 10, x, y, f, got, want);
            nontrivial = true;
        }
        Form::CommandArith(op) => {
            let (x, y) = (Command::new(pd(s.k1), s.v), Command::new(pd(s.k2), s.w));
            let f = s.s1[0];
            let assign = op % 10 >= 5;
            let o = op % 5;
            let got = catch(|| match (o, assign) {
                (0, false) => x + y,
                (1, false) => x - y,
                (2, false) => x * f,
                (3, false) => x / f,
                (4, _) => -x,
                (0, true) => {
                    let mut z = x;
                    z += y;
                    z
                }
                (1, true) => {
                    let mut z = x;
                    z -= y;
                    z
                }
                (2, true) => {
                    let mut z = x;
                    z *= f;
                    z
                }
                _ => {
                    let mut z = x;
                    z /= f;
                    z
                }
            });
            let mixed = s.k1 % 3 != s.k2 % 3 && o <= 1;
            match got {
                Err(m) => ensure!(mixed, format!("C14/command-arith/{}/panic", op % 10), "command op {} on {:?}, {:?} panicked: {}", op % 10, x, y, m),
                Ok(g) => {
                    ensure!(!mixed, format!("C14/command-arith/{}/missing-panic", op % 10), "adding/subtracting commands of different kinds {:?}, {:?} returned {:?}", x, y, g);
                    let val = match o {
                        0 => s.v + s.w,
                        1 => s.v - s.w,
                        2 => s.v * f,
                        3 => s.v / f,
                        _ => -s.v,
                    };
                    ensure!(PositionDerivative::from(g) == pd(s.k1) && bits_eq(f32::from(g), val), format!("C14/command-arith/{}", op % 10), "command op {} on {:?}, {:?}, {:e}: got {:?}, expected {:?}({:e})", op % 10, x, y, f, g, pd(s.k1), val);
                }
            }
            nontrivial = mixed || o > 1;
        }
    }
    Ok(CaseInfo::new(nontrivial, hash_of(&(s.form, s.s1.map(f32::to_bits), s.dt, s.k1, s.k2, s.unit, s.v.to_bits()))).class_if(s.dt < 0, "dt < 0"))
}

fn forms() -> Vec<Form> {
    let mut v = vec![Form::Update, Form::Update, Form::Update, Form::CommandFromState, Form::CommandAccessors, Form::StateNew];
    v.extend((0..3).map(Form::Setter));
    v.extend((0..10).map(Form::StateArith));
    v.extend((0..10).map(Form::CommandArith));
    v
}

pub struct C14;
impl Property for C14 {
    const ID: &'static str = "C14";
    const RULE: &'static str = "random finite state triples of moderate magnitude (zeros frequent), dt in +-1e5 s as i64 ns incl. 0 and +-1 ns, all three command kinds, grid units as setter arguments (exhaustive: 49 units x 3 setters x State::new), State/Command arithmetic incl. mixed kinds. Oracles: kinematic formulas in f64 with a running error bound (x4), exact identity for dt=0, exact component-wise f32 operators, setter effect/ rejection tables, command accessor round-trips, panic iff mixed-kind +/-. Non-trivial = dt<0 or non-zero acceleration (update), wrong-unit setter, mixed-kind pair or any conversion/arith case; distinct = (form, inputs).";
    type Scenario = Scenario;
    fn strategy(_tier: Tier) -> BoxedStrategy<Scenario> {
        // the statement quantifies over *all finite* triples: moderate values (where the kinematic bound is tight),
        // arbitrary finite f32s incl. subnormals and values just above zero, and zero/non-zero patterns
        let comp = || prop_oneof![5 => gen::moderate(), 3 => gen::finite_f32(), 1 => (any::<bool>(), -46.0f64..-3.0).prop_map(|(n, e)| { let v = 10f64.powf(e) as f32; if n { -v } else { v } })];
        let triple = move || [comp(), comp(), comp()];
        // result-targeted: the acceleration (nearly) reverses or cancels the velocity within the step, at any magnitude up to
        // the top of the f32 range - intermediate terms are huge while the true result is small
        let reversal = (any::<bool>(), -30.0f64..38.4, prop_oneof![Just(0.5f64), Just(1.0), Just(2.0), Just(4.0), 0.25f64..4.0], -1.0e-3f64..1.0e-3, comp(), prop_oneof![1_000_000_000i64..100_000_000_000_000, -100_000_000_000_000i64..-1_000_000_000])
            .prop_map(|(neg, e, c, eps, p, dt)| {
                let v = (10f64.powf(e) * if neg { -1.0 } else { 1.0 }) as f32;
                let a = (-(c * (1.0 + eps)) * v as f64 / (dt as f64 / 1e9)) as f32;
                ([p, v, if a.is_finite() { a } else { 0.0 }], dt)
            });
        let dt = prop_oneof![2 => Just(0i64), 1 => prop_oneof![Just(1i64), Just(-1i64)], 8 => -100_000_000_000_000i64..=100_000_000_000_000i64, 3 => -2_000_000_000i64..2_000_000_000i64];
        let unit = prop_oneof![1 => Just((1i8, 0i8)), 1 => Just((1i8, -1i8)), 1 => Just((1i8, -2i8)), 3 => (-3i8..=3, -3i8..=3)];
        let general = (triple(), triple(), dt, 0u8..3, 0u8..3, comp(), prop_oneof![3 => gen::moderate_nonzero(), 1 => gen::finite_f32()], unit, proptest::sample::select(forms()))
            .prop_map(|(s1, s2, dt, k1, k2, v, w, unit, form)| Scenario { s1, s2, dt, k1, k2, v, w, unit, form });
        let targeted = reversal.prop_map(|(s1, dt)| Scenario { s1, s2: [0.0; 3], dt, k1: 0, k2: 0, v: 0.0, w: 1.0, unit: (1, 0), form: Form::Update });
        prop_oneof![12 => general, 1 => targeted].boxed()
    }
    fn cases(tier: Tier) -> u32 {
        tier.pick(100_000, 1_500_000)
    }
    fn exhaustive(_tier: Tier, sink: &mut dyn FnMut(Scenario)) -> Vec<String> {
        let mut n = 0;
        for m in -3i8..=3 {
            for sx in -3i8..=3 {
                for k in 0..3u8 {
                    sink(Scenario { s1: [1.5, -2.0, 0.75], s2: [0.0; 3], dt: 0, k1: 0, k2: 0, v: 42.5, w: 1.0, unit: (m, sx), form: Form::Setter(k) });
                    n += 1;
                }
                sink(Scenario { s1: [1.5, -2.0, 0.75], s2: [0.0; 3], dt: 0, k1: 0, k2: 0, v: 42.5, w: 1.0, unit: (m, sx), form: Form::StateNew });
                n += 1;
            }
        }
        for k1 in 0..3u8 {
            for k2 in 0..3u8 {
                for op in 0..10u8 {
                    sink(Scenario { s1: [2.0, 0.0, 0.0], s2: [0.0; 3], dt: 0, k1, k2, v: 3.5, w: -1.25, unit: (0, 0), form: Form::CommandArith(op) });
                    n += 1;
                }
            }
        }
        // which-derivative table of Command::from(State)
        for mask in 0..8u8 {
            let f = |b: u8| if mask & b != 0 { 2.5f32 } else { 0.0 };
            sink(Scenario { s1: [f(1), f(2), f(4)], s2: [0.0; 3], dt: 0, k1: 0, k2: 0, v: 0.0, w: 1.0, unit: (0, 0), form: Form::CommandFromState });
            n += 1;
        }
        vec![format!("49 units x (3 setters + State::new), 3x3 command kinds x 10 operators, 8 zero/non-zero patterns of Command::from(State) ({} cases)", n)]
    }
    fn check(s: &Scenario) -> CheckResult {
        check(s)
    }
    fn valid(s: &Scenario) -> bool {
        s.s1.iter().chain(s.s2.iter()).all(|x| x.is_finite()) && s.v.is_finite() && s.w.is_finite() && s.dt.unsigned_abs() <= 100_000_000_000_000 && s.k1 < 3 && s.k2 < 3 && dom::grid(s.unit)
    }
    fn extra_coverage() -> std::collections::BTreeMap<String, serde_json::Value> {
        let mut m = std::collections::BTreeMap::new();
        m.insert("max_observed_error_over_bound".into(), serde_json::json!(HEADROOM.get()));
        m.insert("tolerance".into(), "kinematics: |out - reference| <= 4 x running f32 error bound of the same data flow; everything else bitwise".into());
        m
    }
    fn assumptions() -> Vec<String> {
        vec!["dimension checking is compiled in (setters reject wrong units)".into()]
    }
}
