//! C04 — PIDControllerStream output equals the textbook discrete PID of its input history.
use crate::common::*;
use crate::ensure;
use crate::rnum::{Headroom, R};
use crate::sut::*;
use proptest::prelude::*;
use rrtk::streams::converters::*;
use rrtk::streams::math::*;
use rrtk::*;
use serde::{Deserialize, Serialize};

#[derive(Clone, Debug, Serialize, Deserialize)]
pub struct Scenario {
    pub k: [f32; 3],
    pub setpoint: f32,
    pub t0: i64,
    pub events: Vec<Ev>,
    /// metamorphic: constant added to every timestamp
    pub shift: i64,
    /// metamorphic: setpoint and samples scaled by 2^scale
    pub scale: i8,
}
static HEADROOM: Headroom = Headroom::new();

/// The PID controller of examples/pid.rs, assembled from the crate's own streams.
struct StreamPid {
    int: Reference<dyn Getter<Quantity, E>>,
    drv: Reference<dyn Getter<Quantity, E>>,
    pro_f: Reference<dyn Getter<f32, E>>,
    int_f: Reference<dyn Getter<f32, E>>,
    drv_f: Reference<dyn Getter<f32, E>>,
    output: SumStream<f32, 3, E>,
}
impl StreamPid {
    fn new(input: Reference<dyn Getter<Quantity, E>>, setpoint: f32, k: [f32; 3]) -> Self {
        let time_getter = rc_ref_cell_reference(TimeGetterFromGetter::new(input.clone()));
        let setpoint = rc_ref_cell_reference(ConstantGetter::new(time_getter.clone(), Quantity::new(setpoint, MILLIMETER)));
        let kp = rc_ref_cell_reference(ConstantGetter::new(time_getter.clone(), Quantity::dimensionless(k[0])));
        let ki = rc_ref_cell_reference(ConstantGetter::new(time_getter.clone(), Quantity::dimensionless(k[1])));
        let kd = rc_ref_cell_reference(ConstantGetter::new(time_getter.clone(), Quantity::dimensionless(k[2])));
        let error = rc_ref_cell_reference(DifferenceStream::new(setpoint.clone(), input.clone()));
        let int = rc_ref_cell_reference(IntegralStream::new(error.clone()));
        let drv = rc_ref_cell_reference(DerivativeStream::new(error.clone()));
        let int_zeroer = rc_ref_cell_reference(NoneToValue::new(int.clone(), time_getter.clone(), Quantity::new(0.0, MILLIMETER)));
        let drv_zeroer = rc_ref_cell_reference(NoneToValue::new(drv.clone(), time_getter.clone(), Quantity::new(0.0, MILLIMETER)));
        let kp_mul = rc_ref_cell_reference(ProductStream::new([to_dyn!(Getter<Quantity, E>, kp.clone()), to_dyn!(Getter<Quantity, E>, error.clone())]));
        let pro_f = rc_ref_cell_reference(QuantityToFloat::new(kp_mul));
        let ki_mul = rc_ref_cell_reference(ProductStream::new([to_dyn!(Getter<Quantity, E>, ki.clone()), to_dyn!(Getter<Quantity, E>, int_zeroer.clone())]));
        let int_f = rc_ref_cell_reference(QuantityToFloat::new(ki_mul));
        let kd_mul = rc_ref_cell_reference(ProductStream::new([to_dyn!(Getter<Quantity, E>, kd.clone()), to_dyn!(Getter<Quantity, E>, drv_zeroer.clone())]));
        let drv_f = rc_ref_cell_reference(QuantityToFloat::new(kd_mul));
        let output = SumStream::new([to_dyn!(Getter<f32, E>, pro_f.clone()), to_dyn!(Getter<f32, E>, int_f.clone()), to_dyn!(Getter<f32, E>, drv_f.clone())]);
        Self { int: to_dyn!(Getter<Quantity, E>, int), drv: to_dyn!(Getter<Quantity, E>, drv), pro_f: to_dyn!(Getter<f32, E>, pro_f), int_f: to_dyn!(Getter<f32, E>, int_f), drv_f: to_dyn!(Getter<f32, E>, drv_f), output }
    }
    fn update(&mut self) -> NothingOrError<E> {
        self.int.borrow_mut().update()?;
        self.drv.borrow_mut().update()?;
        self.pro_f.borrow_mut().update()?;
        self.int_f.borrow_mut().update()?;
        self.drv_f.borrow_mut().update()?;
        Ok(())
    }
    /// every stateful part sees every event (the example's `?` chain would stop at the first part that reports the gap)
    fn update_all(&mut self) {
        let _ = self.int.borrow_mut().update();
        let _ = self.drv.borrow_mut().update();
        let _ = self.pro_f.borrow_mut().update();
        let _ = self.int_f.borrow_mut().update();
        let _ = self.drv_f.borrow_mut().update();
    }
}

fn run_real(k: [f32; 3], sp: f32, events: &[Ev], times: &[i64]) -> (Vec<Obs>, Vec<Result<(), i32>>) {
    let p = Params { k, x: sp, cmd_kind: 0, window: 1, unit: (0, 0) };
    let mut sut = build(Kind::Pid, &p);
    let mut outs = Vec::new();
    let mut rets = Vec::new();
    for (i, ev) in events.iter().enumerate() {
        (sut.feed)(ev, times[i]);
        rets.push((sut.update)().map_err(err_code));
        outs.push((sut.get)());
    }
    (outs, rets)
}

pub fn check(s: &Scenario) -> CheckResult {
    let times = times_of(s.t0, &s.events);
    let (outs, rets) = run_real(s.k, s.setpoint, &s.events, &times);
    let [kp, ki, kd] = s.k.map(R::exact);
    let sp = R::exact(s.setpoint);
    // reference controller
    let mut prev: Option<(i64, R)> = None;
    let mut integral = R::ZERO;
    let mut seg_len = 0usize;
    let mut best_seg = 0usize;
    let mut unequal_dt = false;
    let mut last_dt: Option<i64> = None;
    let mut reset_then_two = false;
    let mut skipped_nonfinite = false;
    for (i, ev) in s.events.iter().enumerate() {
        match ev {
            Ev::A => {
                ensure!(outs[i] == Obs::None, "C04/absent-output", "event {}: absent input but get() = {:?}", i, outs[i]);
                ensure!(rets[i] == Ok(()), "C04/absent-return", "event {}: absent input but update() returned {:?}", i, rets[i]);
                prev = None;
                integral = R::ZERO;
                seg_len = 0;
                last_dt = None;
            }
            Ev::E(e) => {
                ensure!(outs[i] == Obs::Err(exp_code(*e)), "C04/error-output", "event {}: input Err({}) but get() = {:?}", i, e, outs[i]);
                ensure!(rets[i] == Err(exp_code(*e)), "C04/error-return", "event {}: input Err({}) but update() returned {:?}", i, e, rets[i]);
                prev = None;
                integral = R::ZERO;
                seg_len = 0;
                last_dt = None;
            }
            Ev::P(x, _) => {
                ensure!(rets[i] == Ok(()), "C04/present-return", "event {}: present input but update() returned {:?}", i, rets[i]);
                let err = sp - R::exact(*x);
                let (int_add, drv) = match prev {
                    Some((pt, pe)) => {
                        let dt = R::secs(times[i] - pt);
                        if let Some(l) = last_dt {
                            if l != times[i] - pt {
                                unequal_dt = true;
                            }
                        }
                        last_dt = Some(times[i] - pt);
                        ((dt * (pe + err)) / R::c(2.0), (err - pe) / dt)
                    }
                    None => (R::ZERO, R::ZERO),
                };
                integral = if prev.is_some() { integral + int_add } else { R::ZERO };
                let want = kp * err + ki * integral + kd * drv;
                prev = Some((times[i], err));
                seg_len += 1;
                best_seg = best_seg.max(seg_len);
                if seg_len >= 2 && s.events[..i].iter().any(|e| !e.is_present()) {
                    reset_then_two = true;
                }
                match &outs[i] {
                    Obs::Some(t, v) => {
                        ensure!(*t == times[i], "C04/time", "event {}: output stamped {} but the input sample is stamped {}", i, t, times[i]);
                        if want.is_finite() {
                            HEADROOM.observe(want.ratio(v[0]));
                            ensure!(
                                want.admits(v[0], 4.0, 0.0),
                                "C04/value",
                                "event {} (sample #{} of its segment): output {:e}, textbook PID gives {:e} (allowed deviation {:e}); gains {:?} setpoint {:e} history {:?}",
                                i, seg_len, v[0], want.v, 4.0 * want.e, s.k, s.setpoint, &s.events[..=i]
                            );
                        } else {
                            skipped_nonfinite = true;
                        }
                    }
                    o => return Err(Violation::new("C04/present-output", format!("event {}: present input but get() = {:?}", i, o))),
                }
            }
        }
    }
    // (i) time-shift invariance, exact
    // shift towards zero so that extreme start times cannot overflow
    let shift = if s.t0 > 0 { -s.shift.abs() } else { s.shift.abs() };
    let times2: Vec<i64> = times.iter().map(|t| t + shift).collect();
    let (outs2, _) = run_real(s.k, s.setpoint, &s.events, &times2);
    for i in 0..outs.len() {
        ensure!(outs2[i].same(&outs[i].shifted(shift)), "C04/time-shift", "event {}: shifting all timestamps by {} changes the output from {:?} to {:?}", i, shift, outs[i], outs2[i]);
    }
    // (ii) power-of-two scaling, exact
    let f = (2.0f32).powi(s.scale as i32);
    let ev3: Vec<Ev> = s.events.iter().map(|e| if let Ev::P(x, dt) = e { Ev::P(x * f, *dt) } else { *e }).collect();
    let (outs3, _) = run_real(s.k, s.setpoint * f, &ev3, &times);
    for i in 0..outs.len() {
        let want = match &outs[i] {
            Obs::Some(t, v) => Obs::Some(*t, vec![v[0] * f]),
            o => o.clone(),
        };
        let finite = matches!(&outs3[i], Obs::Some(_, v) if v[0].is_finite() && v[0].abs() > 1e-30) || !matches!(&outs3[i], Obs::Some(..));
        if finite {
            ensure!(outs3[i].same(&want), "C04/scaling", "event {}: scaling setpoint and samples by 2^{} gives {:?}, expected exactly {:?}", i, s.scale, outs3[i], want);
        }
    }
    // (iii) differential: the example's stream assembly. On all-present histories with the example's own update chain;
    // on histories with gaps with every part updated on every event (an absent or errored input restarts the integral and
    // the derivative of the assembly just as it restarts the controller); compared at the present samples.
    let all_present = !s.events.is_empty() && s.events.iter().all(|e| e.is_present());
    if !s.events.is_empty() {
        let input = rc_ref_cell_reference(Scripted::<Quantity>::new());
        let mut sp = StreamPid::new(to_dyn!(Getter<Quantity, E>, input.clone()), s.setpoint, s.k);
        for (i, ev) in s.events.iter().enumerate() {
            input.borrow_mut().cur = match ev {
                Ev::P(x, _) => Ok(Some(Datum::new(Time(times[i]), Quantity::new(*x, MILLIMETER)))),
                Ev::A => Ok(None),
                Ev::E(e) => Err(mk_err(*e)),
            };
            if all_present {
                let r = sp.update();
                ensure!(r.is_ok(), "C04/assembled-update", "event {}: the stream-assembled controller failed to update: {:?}", i, r);
            } else {
                sp.update_all();
            }
            if !ev.is_present() {
                continue;
            }
            let got = sp.output.get();
            let (Ok(Some(d)), Obs::Some(t, v)) = (&got, &outs[i]) else {
                return Err(Violation::new("C04/assembled-outcome", format!("event {}: assembled controller returns {:?}, PIDControllerStream {:?} (history {:?})", i, got, outs[i], &s.events[..=i])));
            };
            ensure!(d.time.0 == *t, "C04/assembled-time", "event {}: assembled controller stamped {:?}, PIDControllerStream {}", i, d.time, t);
            // both are within 4e of the reference, so within 8e of each other; recompute e cheaply from magnitudes
            let scale = (d.value as f64 - v[0] as f64).abs();
            let tol = 8.0 * reference_bound(s, &times, i);
            ensure!(scale <= tol || !tol.is_finite(), "C04/assembled-value", "event {}: assembled controller gives {:e}, PIDControllerStream {:e} (allowed difference {:e}; history {:?})", i, d.value, v[0], tol, &s.events[..=i]);
        }
    }
    let kinds: Vec<u8> = s.events.iter().map(|e| e.kind_code()).collect();
    let nontrivial = best_seg >= 3 && unequal_dt && s.k[1] != 0.0 && s.k[2] != 0.0;
    Ok(CaseInfo::new(nontrivial, hash_of(&(kinds, s.k.map(f32::to_bits), s.setpoint.to_bits(), times.last().copied())))
        .class_if(reset_then_two, "absent/error followed by >= 2 samples")
        .class_if(all_present, "all-present history (differential vs stream assembly)")
        .class_if(skipped_nonfinite, "non-finite reference skipped")
        .class_if(best_seg >= 3, "segment of >= 3 samples"))
}

/// running error bound of the reference at event `upto` (re-evaluated; only used by the differential)
fn reference_bound(s: &Scenario, times: &[i64], upto: usize) -> f64 {
    let [kp, ki, kd] = s.k.map(R::exact);
    let sp = R::exact(s.setpoint);
    let mut prev: Option<(i64, R)> = None;
    let mut integral = R::ZERO;
    let mut out = R::ZERO;
    for i in 0..=upto {
        if let Ev::P(x, _) = s.events[i] {
            let err = sp - R::exact(x);
            let (int_add, drv) = match prev {
                Some((pt, pe)) => {
                    let dt = R::secs(times[i] - pt);
                    ((dt * (pe + err)) / R::c(2.0), (err - pe) / dt)
                }
                None => (R::ZERO, R::ZERO),
            };
            integral = if prev.is_some() { integral + int_add } else { R::ZERO };
            out = kp * err + ki * integral + kd * drv;
            prev = Some((times[i], err));
        } else {
            // an absent or errored input restarts the run
            prev = None;
            integral = R::ZERO;
        }
    }
    out.e
}

pub struct C04;
impl Property for C04 {
    const ID: &'static str = "C04";
    const RULE: &'static str = "random gains/setpoint (finite, moderate, sign-mixed, zeros included) and histories of 1..64 events (present sample with strictly increasing time, dt log-uniform 1 us..3 h; absent; Err(1|2); weights 8:1:1 and an all-present family). Oracle: reference controller in f64 with a running f32 error bound (|out - ref| <= 4e), outcome/return value per event kind, exact time-shift invariance, exact 2^k scaling, and agreement with the controller assembled from the crate's own streams as in examples/pid.rs (all-present histories through the example's own update chain; histories with gaps with every part updated on every event, compared at the present samples). Non-trivial = a segment of >= 3 present samples with unequal dt and ki, kd != 0; distinct = (event kinds, gains, setpoint, end time).";
    type Scenario = Scenario;
    fn strategy(_tier: Tier) -> BoxedStrategy<Scenario> {
        let events = prop_oneof![
            3 => proptest::collection::vec(ev_strategy([8, 1, 1, 0], dt_pos()), 1..=64),
            2 => proptest::collection::vec(ev_strategy([1, 0, 0, 0], dt_pos()), 1..=64),
            1 => proptest::collection::vec(ev_strategy([4, 2, 1, 1], dt_pos()), 1..=64),
        ];
        ([gen::moderate(), gen::moderate(), gen::moderate()], gen::moderate(), t0_strategy(), events, -1_000_000_000_000_000i64..1_000_000_000_000_000, -8i8..=8)
            .prop_map(|(k, setpoint, t0, events, shift, scale)| Scenario { k, setpoint, t0, events, shift, scale })
            .boxed()
    }
    fn cases(tier: Tier) -> u32 {
        tier.pick(25_000, 150_000)
    }
    fn check(s: &Scenario) -> CheckResult {
        check(s)
    }
    fn valid(s: &Scenario) -> bool {
        s.k.iter().all(|x| dom::moderate(*x)) && dom::moderate(s.setpoint) && dom::t0_span(s.t0) && s.shift.unsigned_abs() <= 1_000_000_000_000_000 && (-8..=8).contains(&s.scale) && (1..=64).contains(&s.events.len()) && s.events.iter().all(|e| match e {
            Ev::P(v, dt) => dom::moderate(*v) && dom::dt_pos(*dt),
            Ev::A => true,
            Ev::E(c) => *c <= 2,
        })
    }
    fn extra_coverage() -> std::collections::BTreeMap<String, serde_json::Value> {
        let mut m = std::collections::BTreeMap::new();
        m.insert("max_observed_error_over_bound".into(), serde_json::json!(HEADROOM.get()));
        m.insert("tolerance".into(), "|out - reference| <= 4 x running f32 error bound of the textbook data flow (u = 2^-24 per operation, two roundings for ns -> s)".into());
        m
    }
    fn assumptions() -> Vec<String> {
        vec!["timestamps strictly increase within a history; values, gains and setpoints are finite with |x| in {0} u [1e-3, 1e4]".into(), "cases whose reference overflows f32 range are skipped and counted".into()]
    }
}
