//! C19 — feature configuration changes only whether units are checked, never the numbers.
//! The same generated programs are executed by ten `cfgrun` binaries (one per rrtk feature
//! configuration / profile) and the canonical traces are compared (DESIGN.md, C19).
use crate::common::*;
use crate::ensure;
use crate::sut::{ev_strategy, t0_strategy};
use crate::sutcore::{CondEv, Ev, Kind, Params, ALL_KINDS};
use crate::workload::*;
use proptest::prelude::*;
use serde::{Deserialize, Serialize};
use std::cell::RefCell;
use std::io::{BufRead, BufReader, Write};
use std::process::{Child, ChildStdin, ChildStdout, Command as Proc, Stdio};

#[derive(Clone, Debug, Serialize, Deserialize)]
pub struct Scenario {
    pub program: Program,
    /// also run the unit-scrambled twin of the Quantity / State steps on the unchecked builds
    pub ill_seed: Option<u8>,
}

#[derive(Clone, Copy, Debug, PartialEq)]
pub enum Powf {
    Std,
    Libm,
    Micromath,
}
pub struct Cfg {
    pub name: &'static str,
    pub profile: &'static str,
    pub checked: bool,
    pub powf: Powf,
}
pub const CFGS: [Cfg; 10] = [
    Cfg { name: "std_dbg", profile: "relassert", checked: true, powf: Powf::Std },
    Cfg { name: "std_rel", profile: "release", checked: false, powf: Powf::Std },
    Cfg { name: "std_relchk", profile: "release", checked: true, powf: Powf::Std },
    Cfg { name: "std_nochk", profile: "relassert", checked: false, powf: Powf::Std },
    Cfg { name: "libm", profile: "release", checked: false, powf: Powf::Libm },
    Cfg { name: "libm_chk", profile: "release", checked: true, powf: Powf::Libm },
    Cfg { name: "micro", profile: "release", checked: false, powf: Powf::Micromath },
    Cfg { name: "micro_chk", profile: "release", checked: true, powf: Powf::Micromath },
    Cfg { name: "std_libm_micro", profile: "release", checked: false, powf: Powf::Std },
    Cfg { name: "libm_micro", profile: "release", checked: false, powf: Powf::Libm },
];

struct Runner {
    child: Child,
    stdin: ChildStdin,
    stdout: BufReader<ChildStdout>,
}
thread_local! {
    static POOL: RefCell<Vec<Runner>> = const { RefCell::new(Vec::new()) };
}
fn with_pool<T>(f: impl FnOnce(&mut Vec<Runner>) -> T) -> T {
    POOL.with(|p| {
        let mut p = p.borrow_mut();
        if p.is_empty() {
            for c in &CFGS {
                let path = format!("{}/work/target-cfg/{}/{}/cfgrun", verif_root().display(), c.name, c.profile);
                let mut child = match Proc::new(&path).stdin(Stdio::piped()).stdout(Stdio::piped()).stderr(Stdio::null()).spawn() {
                    Ok(c) => c,
                    Err(e) => {
                        eprintln!("INFRASTRUCTURE: cannot start {}: {} (run tools/pre_C19.sh)", path, e);
                        std::process::exit(2);
                    }
                };
                let stdin = child.stdin.take().unwrap();
                let stdout = BufReader::new(child.stdout.take().unwrap());
                p.push(Runner { child, stdin, stdout });
            }
        }
        f(&mut p)
    })
}
impl Drop for Runner {
    fn drop(&mut self) {
        let _ = self.child.kill();
        let _ = self.child.wait();
    }
}
type Trace = Vec<Vec<String>>;
fn run_on(cfgs: &[usize], program: &Program) -> Vec<Trace> {
    let line = serde_json::to_string(program).unwrap();
    with_pool(|pool| {
        for &c in cfgs {
            if writeln!(pool[c].stdin, "{}", line).and_then(|_| pool[c].stdin.flush()).is_err() {
                eprintln!("INFRASTRUCTURE: cfgrun {} died", CFGS[c].name);
                std::process::exit(2);
            }
        }
        cfgs.iter()
            .map(|&c| {
                let mut answer = String::new();
                if pool[c].stdout.read_line(&mut answer).unwrap_or(0) == 0 {
                    eprintln!("INFRASTRUCTURE: cfgrun {} closed its output (crashed?)", CFGS[c].name);
                    std::process::exit(2);
                }
                serde_json::from_str::<Trace>(&answer).unwrap_or_else(|e| {
                    eprintln!("INFRASTRUCTURE: unparsable answer from cfgrun {}: {}", CFGS[c].name, e);
                    std::process::exit(2);
                })
            })
            .collect()
    })
}

fn parse_f(tok: &str) -> Option<f32> {
    let t = tok.rsplit('~').next().unwrap_or(tok);
    if t == "nan" {
        return Some(f32::NAN);
    }
    u32::from_str_radix(t, 16).ok().map(f32::from_bits)
}
fn ulp_diff(a: f32, b: f32) -> f64 {
    if a == b || (a.is_nan() && b.is_nan()) {
        return 0.0;
    }
    // a result within a few ulps of the overflow threshold may legitimately be f32::MAX in one library and infinite in the other
    if (a.is_infinite() && b.is_finite() && b.abs() >= 3.40282e38 && a.signum() == b.signum()) || (b.is_infinite() && a.is_finite() && a.abs() >= 3.40282e38 && a.signum() == b.signum()) {
        return 1.0;
    }
    ((a as f64) - (b as f64)).abs() / ulp32(b as f64).max(1e-45)
}

/// EWMA recomputation: with L taken from the configuration's own power function, every output must be
/// exactly prev*(1-L) + new*L.
fn check_ewma_tokens(cfg: &Cfg, toks: &[String]) -> Result<(), Violation> {
    let mut prev: Option<f32> = None;
    let mut i = 0;
    let mut cur_out: Option<Option<f32>> = None; // Some(None) = absent/err, Some(Some(v)) = value
    while i < toks.len() {
        let t = &toks[i];
        if t.starts_with("u:") {
            cur_out = None;
        } else if t == "none" || t.starts_with("E:") {
            cur_out = Some(None);
            prev = None;
        } else if t.starts_with('@') {
            let v = parse_f(&toks[i + 1]).unwrap_or(f32::NAN);
            cur_out = Some(Some(v));
            i += 1;
        } else if let Some(xb) = t.strip_prefix('x') {
            let x = parse_f(xb).unwrap();
            let pw = parse_f(toks[i + 1].strip_prefix("pw").unwrap()).unwrap();
            i += 3; // pw, py and pb
            let got = match cur_out {
                Some(Some(v)) => v,
                _ => return Err(Violation::new("C19/ewma/absent-on-sample", format!("[{}] a present sample produced no EWMA output", cfg.name))),
            };
            let p = prev.unwrap_or(x);
            let lambda = 1.0 - pw;
            let want = p * (1.0 - lambda) + x * lambda;
            ensure!(same_f32(got, want), "C19/ewma/not-the-documented-formula", "[{}] EWMA output {:e} ({}) but prev*(1-L)+new*L = {:e} with prev={:e} new={:e} and this configuration's own power value {:e}", cfg.name, got, fb(got), want, p, x, pw);
            prev = Some(got);
            continue_after(&mut i);
            continue;
        }
        i += 1;
    }
    Ok(())
}
fn continue_after(i: &mut usize) {
    *i += 1;
}

/// plain f32 / i64 evaluation of a quantity program (what an unchecked build must compute)
fn plain_quantity(prog: &[QTok]) -> Vec<String> {
    #[derive(Clone, Copy)]
    enum P {
        Q(f32),
        T(i64),
        D(i64),
    }
    let qv = |p: P| match p {
        P::Q(v) => v,
        P::T(n) => n as f32 / 1_000_000_000.0,
        P::D(n) => n as f32,
    };
    let mut out = Vec::new();
    let mut st: Vec<P> = Vec::new();
    for tok in prog {
        match *tok {
            QTok::PushQ(v, _, _) => st.push(P::Q(v)),
            QTok::PushT(n) => st.push(P::T(n)),
            QTok::PushD(n) => st.push(P::D(n)),
            QTok::Dup => {
                if let Some(x) = st.last().copied() {
                    st.push(x)
                }
            }
            QTok::Swap => {
                let n = st.len();
                if n >= 2 {
                    st.swap(n - 1, n - 2)
                }
            }
            QTok::Neg | QTok::Abs => {
                if let Some(x) = st.pop() {
                    st.push(match (x, *tok) {
                        (P::Q(v), QTok::Neg) => P::Q(-v),
                        (P::Q(v), _) => P::Q(v.abs()),
                        (P::T(n), QTok::Neg) => P::T(-n),
                        (P::D(n), QTok::Neg) => P::D(-n),
                        (o, _) => o,
                    })
                }
            }
            QTok::Lt | QTok::Eq | QTok::Le | QTok::Gt | QTok::Ge | QTok::Ne => {
                if st.len() >= 2 {
                    let (b, a) = (st.pop().unwrap(), st.pop().unwrap());
                    let r = match (a, b) {
                        (P::Q(x), P::Q(y)) => Some(match *tok {
                            QTok::Lt => x < y,
                            QTok::Le => x <= y,
                            QTok::Gt => x > y,
                            QTok::Ge => x >= y,
                            QTok::Ne => x != y,
                            _ => x == y,
                        }),
                        (P::T(x), P::T(y)) | (P::D(x), P::D(y)) => Some(match *tok {
                            QTok::Lt => x < y,
                            QTok::Le => x <= y,
                            QTok::Gt => x > y,
                            QTok::Ge => x >= y,
                            QTok::Ne => x != y,
                            _ => x == y,
                        }),
                        _ => None,
                    };
                    out.push(match r {
                        Some(true) => "true",
                        Some(false) => "false",
                        None => "n/a",
                    }
                    .to_string());
                    st.push(a);
                }
            }
            QTok::ToTime => {
                if let Some(P::Q(v)) = st.last().copied() {
                    st.pop();
                    st.push(P::T((v * 1_000_000_000.0) as i64));
                }
            }
            QTok::ToInt => {
                if let Some(P::Q(v)) = st.last().copied() {
                    st.pop();
                    st.push(P::D(v as i64));
                }
            }
            QTok::ToQuantity => {
                if let Some(x) = st.pop() {
                    st.push(P::Q(qv(x)))
                }
            }
            op => {
                if st.len() >= 2 {
                    let (b, a) = (st.pop().unwrap(), st.pop().unwrap());
                    let (ta, tb) = (match a { P::Q(_) => 0u8, P::T(_) => 1, P::D(_) => 2 }, match b { P::Q(_) => 0u8, P::T(_) => 1, P::D(_) => 2 });
                    match bin_result_type(ta, tb, op) {
                        None => {
                            st.push(a);
                            st.push(b);
                        }
                        Some(0) => {
                            let (x, y) = (qv(a), qv(b));
                            st.push(P::Q(match op {
                                QTok::Add | QTok::AddAssign => x + y,
                                QTok::Sub | QTok::SubAssign => x - y,
                                QTok::Mul | QTok::MulAssign => x * y,
                                _ => x / y,
                            }));
                        }
                        Some(rt) => {
                            let iv = |p: P| match p {
                                P::T(n) | P::D(n) => n,
                                P::Q(_) => 0,
                            };
                            let (x, y) = (iv(a), iv(b));
                            let r = match op {
                                QTok::Add | QTok::AddAssign => x + y,
                                QTok::Sub | QTok::SubAssign => x - y,
                                QTok::Mul | QTok::MulAssign => x * y,
                                _ => x / y,
                            };
                            st.push(if rt == 1 { P::T(r) } else { P::D(r) });
                        }
                    }
                }
            }
        }
    }
    for v in st {
        out.push(match v {
            P::Q(q) => fb(q),
            P::T(n) => format!("t{}", n),
            P::D(n) => format!("d{}", n),
        });
    }
    out
}

fn scramble(seed: u8, step: &Step) -> Step {
    let mut k = seed as i32;
    let mut next = || {
        k = (k * 37 + 11) % 101;
        ((k % 7) - 3) as i8
    };
    match step {
        Step::Quantity(prog) => Step::Quantity(prog.iter().map(|t| if let QTok::PushQ(v, _, _) = t { QTok::PushQ(*v, next(), next()) } else { *t }).collect()),
        Step::StateOps { s, ops } => Step::StateOps { s: *s, ops: ops.iter().map(|o| if let StOp::Set(k, v, _, _) = o { StOp::Set(*k, *v, next(), next()) } else { *o }).collect() },
        other => other.clone(),
    }
}

pub fn check(s: &Scenario) -> CheckResult {
    let all: Vec<usize> = (0..CFGS.len()).collect();
    let traces = run_on(&all, &s.program);
    let base = &traces[0];
    ensure!(base.len() == s.program.len(), "C19/protocol", "trace has {} steps for a program of {} steps: {:?}", base.len(), s.program.len(), base);
    let mut areas = std::collections::BTreeSet::new();
    let mut stateful_or_device = false;
    for (si, step) in s.program.iter().enumerate() {
        let area = match step {
            Step::Quantity(_) => "quantity",
            Step::StateOps { .. } => "state",
            Step::Profile { .. } => "profile",
            Step::Stream { .. } => {
                stateful_or_device = true;
                "stream"
            }
            Step::Net { .. } => "net",
            Step::Device { .. } => {
                stateful_or_device = true;
                "device"
            }
            Step::DatumOps { .. } => "datum",
            Step::Pow { .. } => "pow",
        };
        areas.insert(area);
        for (ci, cfg) in CFGS.iter().enumerate() {
            let t = &traces[ci][si];
            ensure!(t.first().map(|x| x.as_str()) != Some("PANIC"), format!("C19/{}/panic", area), "[{}] step {} ({:?}) of a well-dimensioned program panicked", cfg.name, si, step);
            ensure!(!t.iter().any(|x| x == "rejected") || traces[0][si].iter().any(|x| x == "rejected"), format!("C19/{}/rejected", area), "[{}] step {} rejected a value the baseline build accepts", cfg.name, si);
            let b = &base[si];
            ensure!(t.len() == b.len(), format!("C19/{}/shape", area), "[{}] step {} ({:?}) yields {} tokens, the baseline build {}:\n{:?}\nvs\n{:?}", cfg.name, si, step, t.len(), b.len(), t, b);
            for (k, (x, y)) in t.iter().zip(b.iter()).enumerate() {
                if x.contains('~') || y.contains('~') {
                    // powf-derived
                    if cfg.powf == Powf::Std {
                        ensure!(x == y, format!("C19/{}/powf-std-family", area), "[{}] step {} token {}: {} vs baseline {} although both use std's power function", cfg.name, si, k, x, y);
                    }
                    if x.starts_with("pw") {
                        let (a, bb) = (parse_f(x).unwrap_or(f32::NAN), parse_f(y).unwrap_or(f32::NAN));
                        match cfg.powf {
                            Powf::Std => {}
                            Powf::Libm => ensure!(ulp_diff(a, bb) <= 4.0, format!("C19/{}/powf-libm", area), "[{}] step {}: libm power value {:e} differs from std's {:e} by more than 4 ulp", cfg.name, si, a, bb),
                            // micromath's powf is exp(y * ln x) over very coarse ln/exp approximations (tens of percent of
                            // |ln x| were observed, amplified by y): it is the dependency's nature, not an rrtk defect, and the
                            // statement exempts the power function. It is treated as an uninterpreted per-configuration function:
                            // identical among the micromath builds (checked below) and consistent with each EWMA output.
                            Powf::Micromath => {}
                        }
                    }
                    continue;
                }
                ensure!(x == y, format!("C19/{}/numbers-differ", area), "[{}] step {} ({:?}) token {}: {} but the baseline build (std, checking on) gives {}\nfull: {:?}\nbase: {:?}", cfg.name, si, step, k, x, y, t, b);
            }
            // same power function => identical everything, including powf-derived values
            let twin = match cfg.name {
                "libm_chk" | "libm_micro" => Some(4),
                "micro_chk" => Some(6),
                _ => None,
            };
            if let Some(tw) = twin {
                ensure!(*t == traces[tw][si], format!("C19/{}/same-powf-differs", area), "[{}] step {} differs from [{}] although both use the same power function:\n{:?}\nvs\n{:?}", cfg.name, si, CFGS[tw].name, t, traces[tw][si]);
            }
            if let Step::Stream { kind: Kind::EwmaF32 | Kind::EwmaQuantity, .. } = step {
                check_ewma_tokens(cfg, t)?;
            }
        }
    }
    // ill-dimensioned twin on the unchecked builds
    let mut ill_additive = false;
    if let Some(seed) = s.ill_seed {
        let ill: Program = s.program.iter().map(|st| scramble(seed, st)).collect();
        let unchecked: Vec<usize> = (0..CFGS.len()).filter(|&c| !CFGS[c].checked).collect();
        let ill_traces = run_on(&unchecked, &ill);
        for (ui, &ci) in unchecked.iter().enumerate() {
            for (si, step) in ill.iter().enumerate() {
                if !matches!(step, Step::Quantity(_) | Step::StateOps { .. }) {
                    continue;
                }
                let t = &ill_traces[ui][si];
                ensure!(t.first().map(|x| x.as_str()) != Some("PANIC"), "C19/ill/panic", "[{}] an ill-dimensioned program panicked although dimension checking is compiled out: {:?}", CFGS[ci].name, step);
                ensure!(!t.iter().any(|x| x == "rejected"), "C19/ill/rejected", "[{}] an ill-dimensioned value was rejected although dimension checking is compiled out: {:?} -> {:?}", CFGS[ci].name, step, t);
                ensure!(*t == traces[ci][si], "C19/ill/numbers-differ", "[{}] scrambling the units changed the numbers: {:?} vs {:?} for {:?}", CFGS[ci].name, t, traces[ci][si], step);
                if let Step::Quantity(prog) = step {
                    let plain = plain_quantity(prog);
                    // (the leading tokens are the named-constant comparisons, which are not part of the program)
                    let t: Vec<String> = t.iter().filter(|x| !x.starts_with("k-")).cloned().collect();
                    ensure!(t == plain, "C19/ill/not-plain-f32", "[{}] result {:?} differs from plain f32/i64 arithmetic {:?} for {:?}", CFGS[ci].name, t, plain, prog);
                    ill_additive |= prog.iter().any(|t| matches!(t, QTok::Add | QTok::Sub | QTok::AddAssign | QTok::SubAssign | QTok::Lt | QTok::Le | QTok::Gt | QTok::Ge));
                }
            }
        }
    }
    let nontrivial = (areas.len() >= 3 && stateful_or_device) || ill_additive;
    Ok(CaseInfo::new(nontrivial, hash_of(&serde_json::to_string(&s.program).unwrap()))
        .class_if(areas.len() >= 3, ">= 3 API areas")
        .class_if(stateful_or_device, "has a stateful stream or device")
        .class_if(ill_additive, "ill-dimensioned twin with an additive node")
        .class_if(areas.contains("profile"), "motion profile"))
}

// ---------------------------------------------------------------------------------------------
// generators
// ---------------------------------------------------------------------------------------------
/// builds a well-dimensioned stack program from raw random choices (construction, not rejection)
fn build_quantity(raw: &[(u8, f32, i64, i8, i8)]) -> Vec<QTok> {
    #[derive(Clone, Copy)]
    struct Slot {
        ty: u8,
        unit: (i8, i8),
        fresh: bool,
        bits: u32, // magnitude bound (log2) for integer types
    }
    let mut prog = Vec::new();
    let mut st: Vec<Slot> = Vec::new();
    let unit_of = |s: &Slot| match s.ty {
        0 => s.unit,
        1 => (0, 1),
        _ => (0, 0),
    };
    for &(c, v, n, m, sx) in raw {
        let choice = c % 16;
        // a near twin of the top quantity (same unit, value 0..2 ulps away, or the tiny value itself) followed by a
        // comparison: equality/ordering of almost-equal and of tiny values must not depend on the configuration
        if choice == 15 && st.last().map(|t| t.ty == 0).unwrap_or(false) {
            if let Some(&QTok::PushQ(pv, pm, ps)) = prog.iter().rev().find(|t| matches!(t, QTok::PushQ(..))) {
                let top = *st.last().unwrap();
                if top.fresh && top.unit == (pm, ps) {
                    let twin = f32::from_bits(pv.to_bits().wrapping_add((n.unsigned_abs() % 3) as u32));
                    let twin = if twin.is_finite() { twin } else { pv };
                    prog.push(QTok::PushQ(twin, pm, ps));
                    prog.push([QTok::Eq, QTok::Lt, QTok::Le, QTok::Gt, QTok::Ge, QTok::Ne][((n.unsigned_abs() / 3) % 6) as usize]);
                    let l = st.len();
                    st[l - 1].fresh = false;
                    continue;
                }
            }
        }
        if choice < 5 || st.len() < 2 && choice < 12 {
            match c % 5 {
                0 | 1 | 2 => {
                    let v = if v == 0.0 { 1.5 } else { v };
                    prog.push(QTok::PushQ(v, m % 3, sx % 3));
                    st.push(Slot { ty: 0, unit: (m % 3, sx % 3), fresh: true, bits: 0 });
                }
                3 => {
                    let n = (n % (1 << 31)).max(-(1 << 31));
                    let n = if n == 0 { 1_000_000 } else { n };
                    prog.push(QTok::PushT(n));
                    st.push(Slot { ty: 1, unit: (0, 1), fresh: true, bits: 32 });
                }
                _ => {
                    let n = n % 1000;
                    let n = if n == 0 { 7 } else { n };
                    prog.push(QTok::PushD(n));
                    st.push(Slot { ty: 2, unit: (0, 0), fresh: true, bits: 10 });
                }
            }
            continue;
        }
        if st.is_empty() {
            continue;
        }
        match choice {
            5 => {
                // an integer that came out of a saturating float -> int conversion may be i64::MIN: negating it overflows
                // (a panic with overflow checks, a wrap without): outside the stated domain, so not generated
                let top = *st.last().unwrap();
                if top.ty == 0 || top.bits <= 60 {
                    prog.push(QTok::Neg);
                    let l = st.len();
                    st[l - 1].fresh = false;
                }
            }
            6 => {
                // abs only on a fresh non-zero literal: abs(-0.0) differs in sign between std and no_std
                if st.last().unwrap().fresh {
                    prog.push(QTok::Abs);
                    let l = st.len();
                    st[l - 1].fresh = false;
                }
            }
            7 => {
                if st.len() < 12 {
                    prog.push(QTok::Dup);
                    let mut t = *st.last().unwrap();
                    t.fresh = false;
                    st.push(t);
                }
            }
            8 => {
                if st.len() >= 2 {
                    prog.push(QTok::Swap);
                    let l = st.len();
                    st.swap(l - 1, l - 2);
                }
            }
            9 => {
                let top = *st.last().unwrap();
                match top.ty {
                    0 if top.unit == (0, 1) => {
                        prog.push(QTok::ToTime);
                        st.pop();
                        st.push(Slot { ty: 1, unit: (0, 1), fresh: false, bits: 62 });
                    }
                    0 if top.unit == (0, 0) => {
                        prog.push(QTok::ToInt);
                        st.pop();
                        st.push(Slot { ty: 2, unit: (0, 0), fresh: false, bits: 62 });
                    }
                    1 | 2 => {
                        prog.push(QTok::ToQuantity);
                        st.pop();
                        st.push(Slot { ty: 0, unit: unit_of(&top), fresh: false, bits: 0 });
                    }
                    _ => {}
                }
            }
            _ => {
                if st.len() < 2 {
                    continue;
                }
                let (b, a) = (st[st.len() - 1], st[st.len() - 2]);
                let (ua, ub) = (unit_of(&a), unit_of(&b));
                let ops = [QTok::Add, QTok::Sub, QTok::Mul, QTok::Div, QTok::AddAssign, QTok::SubAssign, QTok::MulAssign, QTok::DivAssign, QTok::Lt, QTok::Eq, QTok::Le, QTok::Gt, QTok::Ge, QTok::Ne];
                let mut op = ops[(v.to_bits() as usize ^ n as usize ^ c as usize) % ops.len()];
                if matches!(op, QTok::Lt | QTok::Eq | QTok::Le | QTok::Gt | QTok::Ge | QTok::Ne) {
                    if a.ty == b.ty && ua == ub {
                        prog.push(op);
                        st.pop();
                        let l = st.len();
                        st[l - 1].fresh = false;
                    }
                    continue;
                }
                let additive = matches!(op, QTok::Add | QTok::Sub | QTok::AddAssign | QTok::SubAssign);
                if additive && ua != ub {
                    op = if matches!(op, QTok::AddAssign | QTok::SubAssign) { QTok::MulAssign } else { QTok::Mul };
                }
                let Some(rt) = bin_result_type(a.ty, b.ty, op) else { continue };
                let mul = matches!(op, QTok::Mul | QTok::MulAssign);
                let div = matches!(op, QTok::Div | QTok::DivAssign);
                let ru = if mul { (ua.0 + ub.0, ua.1 + ub.1) } else if div { (ua.0 - ub.0, ua.1 - ub.1) } else { ua };
                if ru.0.abs() > 20 || ru.1.abs() > 20 {
                    continue;
                }
                if rt != 0 {
                    // integer result: no overflow, no division by a computed (possibly zero) value
                    if div && !b.fresh {
                        continue;
                    }
                    let bits = if mul { a.bits + b.bits } else if div { a.bits } else { a.bits.max(b.bits) + 1 };
                    if bits > 60 {
                        continue;
                    }
                    prog.push(op);
                    st.pop();
                    st.pop();
                    st.push(Slot { ty: rt, unit: ru, fresh: false, bits });
                } else {
                    prog.push(op);
                    st.pop();
                    st.pop();
                    st.push(Slot { ty: 0, unit: ru, fresh: false, bits: 0 });
                }
            }
        }
    }
    prog
}
fn quantity_step() -> BoxedStrategy<Step> {
    proptest::collection::vec((any::<u8>(), prop_oneof![5 => gen::moderate(), 2 => gen::wide(), 2 => (any::<bool>(), -30.0f64..-6.0).prop_map(|(n, e)| { let v = 10f64.powf(e) as f32; if n { -v } else { v } })], any::<i64>(), 0i8..9, 0i8..9), 2..24).prop_map(|raw| {
        let raw: Vec<_> = raw.into_iter().map(|(c, v, n, m, s)| (c, v, n, m - 4, s - 4)).collect();
        Step::Quantity(build_quantity(&raw))
    })
    .boxed()
}
fn state_step() -> BoxedStrategy<Step> {
    let triple = || [gen::moderate(), gen::moderate(), gen::moderate()];
    let op = prop_oneof![
        3 => (-10_000_000_000i64..10_000_000_000).prop_map(StOp::Update),
        2 => (0u8..3, gen::moderate()).prop_map(|(k, v)| { let u = [(1i8, 0i8), (1, -1), (1, -2)][k as usize]; StOp::Set(k, v, u.0, u.1) }),
        1 => (0u8..3, gen::moderate()).prop_map(|(k, v)| StOp::SetRaw(k, v)),
        1 => Just(StOp::Neg),
        1 => triple().prop_map(StOp::Add),
        1 => triple().prop_map(StOp::Sub),
        1 => gen::moderate().prop_map(StOp::Mul),
        1 => gen::moderate_nonzero().prop_map(StOp::Div),
        1 => Just(StOp::ToCommand),
        2 => (0u8..5, gen::moderate_nonzero()).prop_map(|(o, f)| StOp::CommandOp(o, f)),
        1 => (0u8..3).prop_map(StOp::GetValue),
    ];
    (triple(), proptest::collection::vec(op, 1..10)).prop_map(|(s, ops)| Step::StateOps { s, ops }).boxed()
}
fn profile_step() -> BoxedStrategy<Step> {
    let times = || proptest::collection::vec(prop_oneof![-1_000_000_000i64..0, 0i64..4_000_000_000_000, Just(0i64)], 1..8);
    // triangular profiles whose cruise phase has exactly zero length (powers of two keep every intermediate exact): a phase of
    // no duration is still a duration
    let triangular = (proptest::sample::select(vec![0.5f32, 1.0, 2.0, 4.0]), proptest::sample::select(vec![0.25f32, 0.5, 1.0, 2.0]), any::<bool>(), times()).prop_map(|(v, a, neg, times)| Step::Profile { start: [0.0; 3], end: [if neg { -(v * v / a) } else { v * v / a }, 0.0, 0.0], max_vel: v, max_acc: a, times });
    prop_oneof![6 => profile_step_general(), 1 => triangular].boxed()
}
fn profile_step_general() -> BoxedStrategy<Step> {
    (crate::mp::scenario_strategy(), proptest::collection::vec(prop_oneof![-1_000_000_000i64..0, 0i64..4_000_000_000_000, Just(0i64)], 1..8)).prop_map(|(sc, times)| Step::Profile { start: sc.prof.start, end: sc.prof.end, max_vel: sc.prof.max_vel, max_acc: sc.prof.max_acc, times }).boxed()
}
fn stream_step() -> BoxedStrategy<Step> {
    let params = ([gen::moderate(), gen::moderate(), gen::moderate()], gen::moderate(), 0.01f32..0.99, 0u8..3, gen::log_ns(1_000, 3_600_000_000_000), (-2i8..=2, -2i8..=2));
    (proptest::sample::select(ALL_KINDS.to_vec()), params, t0_strategy(), proptest::collection::vec(ev_strategy([8, 1, 1, 0], prop_oneof![8 => gen::log_ns(1_000, 3_600_000_000_000), 1 => Just(0i64), 1 => gen::special_ns(1, 3_600_000_000_000)].boxed()), 1..24), proptest::collection::vec(prop_oneof![3 => Just(CondEv::F), 3 => Just(CondEv::T), 1 => Just(CondEv::A), 1 => Just(CondEv::E(1))], 1..8))
        .prop_map(|(kind, (k, x, smoothing, cmd_kind, window, unit), t0, events, cond)| {
            let x = if matches!(kind, Kind::EwmaF32 | Kind::EwmaQuantity) { smoothing } else { x };
            Step::Stream { kind, params: Params { k, x, cmd_kind, window, unit }, t0, events, cond }
        })
        .boxed()
}
fn nin() -> BoxedStrategy<NIn> {
    (prop_oneof![1 => Just(0u8), 1 => Just(1u8), 2 => Just(2u8), 6 => Just(3u8)], -1000i64..1000, gen::moderate_nonzero(), any::<bool>()).prop_map(|(cat, t, v, b)| NIn { cat, t, v, b }).boxed()
}
fn net_step() -> BoxedStrategy<Step> {
    ([nin(), nin(), nin()], [nin(), nin()], proptest::option::weighted(0.9, -1000i64..1000), 0i64..500, gen::moderate()).prop_map(|(ins, bools, clock, limit, none_value)| Step::Net { ins, bools, clock, limit, none_value }).boxed()
}
fn device_step() -> BoxedStrategy<Step> {
    let triple = || [gen::moderate(), gen::moderate(), gen::moderate()];
    let feed = (proptest::option::weighted(0.4, triple()), proptest::option::weighted(0.3, triple()), proptest::option::weighted(0.3, (0u8..3, gen::moderate())), proptest::option::weighted(0.3, (0u8..3, gen::moderate()))).prop_map(|(own_state, ext_state, own_cmd, ext_cmd)| DFeed { own_state, ext_state, own_cmd, ext_cmd });
    (crate::c08::dev_strategy(), proptest::collection::vec(any::<bool>(), 6), proptest::collection::vec(proptest::collection::vec(feed, 6), 1..5)).prop_map(|(spec, linked, rounds)| Step::Device { spec, linked, rounds }).boxed()
}
fn datum_step() -> BoxedStrategy<Step> {
    (-1000i64..1000, -1000i64..1000, gen::moderate(), gen::moderate_nonzero()).prop_map(|(t1, t2, a, b)| Step::DatumOps { t1, t2, a, b }).boxed()
}
/// the power function's special cases: bases and exponents from a pool of exact values (zeros of both signs, +-1, small
/// integers, halves, tiny, huge) mixed with arbitrary moderate values
fn pow_step() -> BoxedStrategy<Step> {
    let base = prop_oneof![6 => proptest::sample::select(vec![0.0f32, -0.0, 1.0, -1.0, 2.0, -2.0, 0.5, -0.5, 10.0, 1.0e-3, 1.0e-30, 1.0e30, -1.0e30, f32::MIN_POSITIVE, 1.0e-40, 3.0e38, 1.0001, 0.999, 1.01, -1.003, 0.99999]), 3 => gen::moderate(), 1 => gen::finite_f32()];
    let expo = prop_oneof![6 => proptest::sample::select(vec![0.0f32, -0.0, 1.0, -1.0, 2.0, -2.0, 3.0, -3.0, 0.5, -0.5, 0.25, 1.0 / 3.0, 100.0, -100.0, 1000.0, -1000.0, 1501.0, 2000.0, 50000.0, -30001.0, 2147483648.0, 1.0e10, -1.0e10, 1.0e-10, 3.0e38, -3.0e38]), 3 => gen::moderate(), 1 => gen::finite_f32()];
    proptest::collection::vec((base, expo).prop_map(|(b, e)| [b, e]), 1..6).prop_map(|pairs| Step::Pow { pairs }).boxed()
}
fn step() -> BoxedStrategy<Step> {
    prop_oneof![3 => quantity_step(), 2 => state_step(), 2 => profile_step(), 4 => stream_step(), 2 => net_step(), 3 => device_step(), 1 => datum_step(), 1 => pow_step()].boxed()
}

pub struct C19;
impl Property for C19 {
    const ID: &'static str = "C19";
    const RULE: &'static str = "random well-dimensioned programs of 1..12 steps over the public API (quantity stack programs incl. Time/DimensionlessInteger operands and conversions, State/Command operations, Datum operators and helpers, motion-profile queries, all 14 stateful stream instantiations on event histories, a network of every stateless stream, every device type over several rounds) executed by ten cfgrun binaries: {std, alloc+libm, alloc+micromath} x {checked, unchecked}, debug-assertion and release profiles, and the std+libm+micromath / alloc+libm+micromath preference cases. Oracle: traces (f32 bit patterns with NaN==NaN and -0==+0, i64 times, outcome tags) identical across all ten, except values derived from the power function: those must be identical among builds using the same power function, libm's raw power values must be within 4 ulp of std's (micromath's power function is a coarse approximation by design and is treated as an uninterpreted per-build function), and every EWMA output must equal prev*(1-L)+new*L exactly with L from that build's own power function; no step may panic or reject. A unit-scrambled twin of the quantity/state steps runs on the six unchecked builds: no panic, no rejection, numbers equal to the well-dimensioned run and to plain f32/i64 arithmetic evaluated by the driver. Non-trivial = program touching >= 3 API areas incl. a stateful stream or device, or an ill-dimensioned twin with an additive/ordering node; distinct = program text.";
    type Scenario = Scenario;
    fn strategy(_tier: Tier) -> BoxedStrategy<Scenario> {
        (proptest::collection::vec(step(), 1..=12), proptest::option::weighted(0.5, any::<u8>())).prop_map(|(program, ill_seed)| Scenario { program, ill_seed }).boxed()
    }
    fn cases(tier: Tier) -> u32 {
        tier.pick(5_000, 30_000)
    }
    fn check(s: &Scenario) -> CheckResult {
        check(s)
    }
    fn assumptions() -> Vec<String> {
        vec![
            "the ten builds cover every distinct cfg predicate in rrtk's sources (checked/unchecked x std/libm/micromath x preference order x debug_assertions), not all 2^8 feature subsets".into(),
            "programs avoid the one documented value-equal difference that can be amplified: abs() is only applied to non-zero literals (abs(-0.0) keeps the sign bit without std)".into(),
            "integer operands are small enough that no i64 operation overflows (overflow checks differ between profiles)".into(),
            "micromath's power function is an approximation by design; only its accuracy class is asserted".into(),
        ]
    }
}
