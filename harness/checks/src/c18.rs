//! C18 — Time and integer quantities: exact integer arithmetic, faithful float conversion.
use crate::c01::{bin_forms, exec_bin, Form as Form01, Operand, OpK, Ty};
use crate::common::*;
use crate::ensure;
use proptest::prelude::*;
use rrtk::*;
use serde::{Deserialize, Serialize};

#[derive(Clone, Copy, Debug, Serialize, Deserialize, PartialEq, Eq, Hash)]
pub enum IntForm {
    TAddT, TSubT, TAddAssignT, TSubAssignT, TNeg,
    TMulD, TDivD, TMulAssignD, TDivAssignD, DMulT,
    DAddD, DSubD, DMulD, DDivD, DAddAssignD, DSubAssignD, DMulAssignD, DDivAssignD, DNeg,
}
pub const INT_FORMS: [IntForm; 19] = [
    IntForm::TAddT, IntForm::TSubT, IntForm::TAddAssignT, IntForm::TSubAssignT, IntForm::TNeg,
    IntForm::TMulD, IntForm::TDivD, IntForm::TMulAssignD, IntForm::TDivAssignD, IntForm::DMulT,
    IntForm::DAddD, IntForm::DSubD, IntForm::DMulD, IntForm::DDivD, IntForm::DAddAssignD, IntForm::DSubAssignD, IntForm::DMulAssignD, IntForm::DDivAssignD, IntForm::DNeg,
];
#[derive(Clone, Copy, Debug, Serialize, Deserialize, PartialEq, Eq, Hash)]
pub enum Form {
    Int(IntForm),
    FromI64,
    TimeToQuantity,
    IntToQuantity,
    /// conversion of a Quantity with unit `unit` to Time / DimensionlessInteger
    QuantityToTime,
    QuantityToInt,
    RoundTrip,
    /// a op b where non-Quantity operands are converted first must equal the mixed operator
    Mixed(Form01),
}
#[derive(Clone, Debug, Serialize, Deserialize)]
pub struct Scenario {
    pub a: i64,
    pub b: i64,
    pub v: f32,
    pub w: f32,
    pub unit: (i8, i8),
    pub form: Form,
}

fn fit(mut a: i64, mut b: i64, f: impl Fn(i128, i128) -> Option<i128>) -> (i64, i64, i64) {
    loop {
        if let Some(r) = f(a as i128, b as i128) {
            if r >= i64::MIN as i128 && r <= i64::MAX as i128 {
                return (a, b, r as i64);
            }
        }
        // shrink the operands towards the domain (construction, not rejection)
        a >>= 1;
        b >>= 1;
        if b == 0 || b == -1 {
            b = 3;
        }
    }
}

fn check_int(f: IntForm, a0: i64, b0: i64) -> Result<(i64, i64), Violation> {
    use IntForm::*;
    let site = format!("C18/{:?}", f);
    let model = |x: i128, y: i128| -> Option<i128> {
        match f {
            TAddT | TAddAssignT | DAddD | DAddAssignD => Some(x + y),
            TSubT | TSubAssignT | DSubD | DSubAssignD => Some(x - y),
            TMulD | TMulAssignD | DMulT | DMulD | DMulAssignD => Some(x * y),
            TDivD | TDivAssignD | DDivD | DDivAssignD => {
                if y == 0 {
                    None
                } else {
                    Some(x / y)
                }
            }
            TNeg | DNeg => Some(-x),
        }
    };
    let (a, b, want) = fit(a0, b0, model);
    let got: Result<i64, String> = catch(|| match f {
        TAddT => (Time(a) + Time(b)).0,
        TSubT => (Time(a) - Time(b)).0,
        TAddAssignT => {
            let mut x = Time(a);
            x += Time(b);
            x.0
        }
        TSubAssignT => {
            let mut x = Time(a);
            x -= Time(b);
            x.0
        }
        TNeg => (-Time(a)).0,
        TMulD => (Time(a) * DimensionlessInteger(b)).0,
        TDivD => (Time(a) / DimensionlessInteger(b)).0,
        TMulAssignD => {
            let mut x = Time(a);
            x *= DimensionlessInteger(b);
            x.0
        }
        TDivAssignD => {
            let mut x = Time(a);
            x /= DimensionlessInteger(b);
            x.0
        }
        DMulT => (DimensionlessInteger(a) * Time(b)).0,
        DAddD => (DimensionlessInteger(a) + DimensionlessInteger(b)).0,
        DSubD => (DimensionlessInteger(a) - DimensionlessInteger(b)).0,
        DMulD => (DimensionlessInteger(a) * DimensionlessInteger(b)).0,
        DDivD => (DimensionlessInteger(a) / DimensionlessInteger(b)).0,
        DAddAssignD => {
            let mut x = DimensionlessInteger(a);
            x += DimensionlessInteger(b);
            x.0
        }
        DSubAssignD => {
            let mut x = DimensionlessInteger(a);
            x -= DimensionlessInteger(b);
            x.0
        }
        DMulAssignD => {
            let mut x = DimensionlessInteger(a);
            x *= DimensionlessInteger(b);
            x.0
        }
        DDivAssignD => {
            let mut x = DimensionlessInteger(a);
            x /= DimensionlessInteger(b);
            x.0
        }
        DNeg => (-DimensionlessInteger(a)).0,
    });
    match got {
        Err(m) => Err(Violation::new(format!("{}/panic", site), format!("{:?} on {} and {} panicked although the exact result {} fits in i64: {}", f, a, b, want, m))),
        Ok(g) => {
            ensure!(g == want, format!("{}/value", site), "{:?} on {} and {}: got {}, exact integer arithmetic gives {}", f, a, b, g, want);
            Ok((a, b))
        }
    }
}

pub fn check(s: &Scenario) -> CheckResult {
    let mut nontrivial = s.a.unsigned_abs() >= 1 << 24 || s.a < 0;
    match s.form {
        Form::Int(f) => {
            let (a, b) = check_int(f, s.a, s.b)?;
            nontrivial = a.unsigned_abs() >= 1 << 24 || a < 0 || b < 0;
        }
        Form::FromI64 => {
            let n = s.a;
            ensure!(Time::from(n) == Time(n) && i64::from(Time(n)) == n && Time::new(n).0 == n, "C18/FromI64/time", "Time <-> i64 is not the identity for {}", n);
            ensure!(DimensionlessInteger::from(n) == DimensionlessInteger(n) && i64::from(DimensionlessInteger(n)) == n && DimensionlessInteger::new(n).0 == n, "C18/FromI64/int", "DimensionlessInteger <-> i64 is not the identity for {}", n);
        }
        Form::TimeToQuantity => {
            let (n1, n2) = if s.a <= s.b { (s.a, s.b) } else { (s.b, s.a) };
            let (q1, q2) = (Quantity::from(Time(n1)), Quantity::from(Time(n2)));
            for (n, q) in [(n1, q1), (n2, q2)] {
                ensure!(q.unit == SECOND, "C18/TimeToQuantity/unit", "Quantity::from(Time({})) has unit {:?}", n, q.unit);
                let r = n as f64 / 1e9;
                ensure!(((q.value as f64) - r).abs() <= 2.0 * ulp32(r), "C18/TimeToQuantity/value", "Quantity::from(Time({})) = {:e}, more than 2 ulp from {:e}", n, q.value, r);
            }
            ensure!(q1.value <= q2.value, "C18/TimeToQuantity/monotone", "Time {} <= {} but seconds {:e} > {:e}", n1, n2, q1.value, q2.value);
        }
        Form::IntToQuantity => {
            let (n1, n2) = if s.a <= s.b { (s.a, s.b) } else { (s.b, s.a) };
            let (q1, q2) = (Quantity::from(DimensionlessInteger(n1)), Quantity::from(DimensionlessInteger(n2)));
            for (n, q) in [(n1, q1), (n2, q2)] {
                ensure!(q.unit == DIMENSIONLESS, "C18/IntToQuantity/unit", "Quantity::from(DimensionlessInteger({})) has unit {:?}", n, q.unit);
                ensure!(((q.value as f64) - n as f64).abs() <= ulp32(n as f64), "C18/IntToQuantity/value", "Quantity::from(DimensionlessInteger({})) = {:e}", n, q.value);
            }
            ensure!(q1.value <= q2.value, "C18/IntToQuantity/monotone", "{} <= {} but {:e} > {:e}", n1, n2, q1.value, q2.value);
        }
        Form::QuantityToTime => {
            let got = Time::try_from(Quantity::new(s.v, Unit::new(s.unit.0, s.unit.1)));
            if s.unit == (0, 1) {
                ensure!(got.is_ok(), "C18/QuantityToTime/rejected", "Time::try_from(a quantity in seconds) failed");
                let r = s.v as f64 * 1e9;
                let t = got.unwrap().0;
                ensure!(((t as f64) - r).abs() <= ulp32(r) + 1.0, "C18/QuantityToTime/value", "Time::try_from({:e} s) = {} ns, expected {:e} within one f32 rounding + 1 ns", s.v, t, r);
            } else {
                ensure!(got.is_err(), "C18/QuantityToTime/accepted", "Time::try_from(quantity of unit {:?}) succeeded: {:?}", s.unit, got);
            }
            nontrivial = s.unit != (0, 1) || s.v.abs() >= 0.016;
        }
        Form::QuantityToInt => {
            let got = DimensionlessInteger::try_from(Quantity::new(s.v, Unit::new(s.unit.0, s.unit.1)));
            if s.unit == (0, 0) {
                ensure!(got.is_ok(), "C18/QuantityToInt/rejected", "DimensionlessInteger::try_from(a dimensionless quantity) failed");
                let d = got.unwrap().0;
                ensure!(((d as f64) - s.v as f64).abs() < 1.0 && (d as f64).abs() <= (s.v as f64).abs(), "C18/QuantityToInt/value", "DimensionlessInteger::try_from({:e}) = {}", s.v, d);
            } else {
                ensure!(got.is_err(), "C18/QuantityToInt/accepted", "DimensionlessInteger::try_from(quantity of unit {:?}) succeeded: {:?}", s.unit, got);
            }
            nontrivial = s.unit != (0, 0) || s.v.abs() >= 1.0;
        }
        Form::RoundTrip => {
            let t = s.a;
            let back = Time::try_from(Quantity::from(Time(t)));
            ensure!(back.is_ok(), "C18/RoundTrip/rejected", "Time -> Quantity -> Time failed for {}", t);
            let t2 = back.unwrap().0;
            let tol = (t as f64).abs() * (2.0f64).powi(-22) + 1.0;
            ensure!(((t2 as f64) - (t as f64)).abs() <= tol, "C18/RoundTrip/value", "Time({}) round-trips to {} (tolerance {:e})", t, t2, tol);
        }
        Form::Mixed(f01) => {
            let Form01::Bin { l, r, op, assign } = f01 else { unreachable!() };
            let u = Unit::new(s.unit.0, s.unit.1);
            let mk = |t: Ty, val: f32, n: i64| match t {
                Ty::Q => Operand::Q(Quantity::new(val, u)),
                Ty::T => Operand::T(Time(n)),
                Ty::D => Operand::D(DimensionlessInteger(n)),
            };
            let conv = |o: Operand| match o {
                Operand::Q(q) => Operand::Q(q),
                Operand::T(t) => Operand::Q(Quantity::from(t)),
                Operand::D(d) => Operand::Q(Quantity::from(d)),
            };
            let (lo, ro) = (mk(l, s.v, s.a), mk(r, s.w, s.b));
            let direct = catch(|| exec_bin(lo, ro, op, assign).unwrap());
            let via = catch(|| exec_bin(conv(lo), conv(ro), op, false).unwrap());
            match (direct, via) {
                (Err(_), Err(_)) => {}
                (Ok(d), Ok(v)) => {
                    ensure!(d.unit == v.unit, format!("C18/Mixed/{:?}/unit", f01), "{:?}: mixed operator gives unit {:?}, the Quantity operator on converted operands {:?}", f01, d.unit, v.unit);
                    ensure!(bits_eq(d.value, v.value), format!("C18/Mixed/{:?}/value", f01), "{:?} on ({:e},{}) and ({:e},{}): mixed operator gives {:e}, the Quantity operator on converted operands {:e}", f01, s.v, s.a, s.w, s.b, d.value, v.value);
                }
                (d, v) => return Err(Violation::new(format!("C18/Mixed/{:?}/panic", f01), format!("{:?} with Quantity unit {:?}: mixed operator {} but the Quantity operator on converted operands {}", f01, s.unit, if d.is_err() { "panics" } else { "returns" }, if v.is_err() { "panics" } else { "returns" }))),
            }
            nontrivial = true;
        }
    }
    Ok(CaseInfo::new(nontrivial, hash_of(&(s.form, s.a, s.b, s.v.to_bits(), s.unit))).class_if(s.a.unsigned_abs() >= 1 << 24, "|n| >= 2^24").class_if(s.a < 0, "negative operand"))
}

/// i64 stratified by magnitude: 0, +-1, 2^k +- small, random inside each binade
pub fn strat_i64() -> BoxedStrategy<i64> {
    prop_oneof![
        1 => prop_oneof![Just(0i64), Just(1), Just(-1)],
        4 => (0u32..=62, -3i64..=3, any::<bool>()).prop_map(|(k, d, neg)| {
            let v = (1i64 << k).saturating_add(d);
            if neg { -v } else { v }
        }),
        3 => gen::tie_i64(),
        5 => (0u32..=62, any::<u64>(), any::<bool>()).prop_map(|(k, r, neg)| {
            let lo = 1u64 << k;
            let v = (lo + (r % lo)) as i64;
            if neg { -v } else { v }
        }),
    ]
    .boxed()
}
fn mixed_forms() -> Vec<Form01> {
    bin_forms().into_iter().filter(|f| matches!(f, Form01::Bin { l, r, .. } if *l != Ty::Q || *r != Ty::Q)).collect()
}
fn all_forms() -> Vec<Form> {
    let mut v: Vec<Form> = INT_FORMS.iter().map(|f| Form::Int(*f)).collect();
    v.extend([Form::FromI64, Form::TimeToQuantity, Form::IntToQuantity, Form::QuantityToTime, Form::QuantityToInt, Form::RoundTrip]);
    v.extend(mixed_forms().into_iter().map(Form::Mixed));
    v
}
/// finite f32 seconds below 9e9 (so that value * 1e9 fits in i64)
fn seconds() -> BoxedStrategy<f32> {
    prop_oneof![
        3 => gen::finite_f32().prop_map(|x| if x.abs() < 9.0e9 { x } else { x % 9.0e9 }),
        3 => (any::<bool>(), -9.0f64..9.95f64).prop_map(|(neg, e)| { let v = 10f64.powf(e) as f32; let v = v.min(8.99e9); if neg { -v } else { v } }),
    ]
    .boxed()
}

pub struct C18;
impl Property for C18 {
    const ID: &'static str = "C18";
    const RULE: &'static str = "i64 operands stratified over magnitudes 0..2^62 (0, +-1, 2^k+-3, random per binade, both signs), shrunk towards the domain until the exact i128 result fits in i64 (divisors != 0); 19 integer operator forms of Time/DimensionlessInteger vs i128 arithmetic; conversions Time->Quantity / int->Quantity (2 ulp / 1 ulp, monotone on ordered pairs incl. neighbours), Quantity->Time / ->int for finite seconds below 9e9 and all 49 grid units (only SECOND / DIMENSIONLESS accepted), round trip; every mixed operator of the module tables vs the Quantity operator on converted operands (bitwise, panic iff panic). Exhaustive: 49 units x both try_from conversions, all forms on a boundary grid of operands. Non-trivial = |n| >= 2^24 or a negative operand or a mixed-type operator; distinct = (form, operands).";
    type Scenario = Scenario;
    fn strategy(_tier: Tier) -> BoxedStrategy<Scenario> {
        let pair = prop_oneof![
            3 => (strat_i64(), strat_i64()),
            2 => (strat_i64(), 0i64..=3).prop_map(|(a, d)| (a, a.saturating_add(d))),
            1 => (strat_i64(), -64i64..=64).prop_map(|(a, d)| (a, a.saturating_add(d * 37))),
        ];
        let unit = prop_oneof![2 => Just((0i8, 1i8)), 2 => Just((0i8, 0i8)), 3 => (-3i8..=3, -3i8..=3)];
        (pair, seconds(), seconds(), unit, proptest::sample::select(all_forms())).prop_map(|((a, b), v, w, unit, form)| Scenario { a, b, v, w, unit, form }).boxed()
    }
    fn cases(tier: Tier) -> u32 {
        tier.pick(150_000, 1_800_000)
    }
    fn exhaustive(_tier: Tier, sink: &mut dyn FnMut(Scenario)) -> Vec<String> {
        let mut n = 0u64;
        for m in -3i8..=3 {
            for s in -3i8..=3 {
                for form in [Form::QuantityToTime, Form::QuantityToInt] {
                    for v in [0.0f32, 1.5, -2.75e3, 8.9e9] {
                        sink(Scenario { a: 0, b: 0, v, w: 0.0, unit: (m, s), form });
                        n += 1;
                    }
                }
                for f in mixed_forms() {
                    sink(Scenario { a: 2_500_000_000, b: -3, v: 1.5, w: -0.25, unit: (m, s), form: Form::Mixed(f) });
                    n += 1;
                }
            }
        }
        let edge: Vec<i64> = vec![0, 1, -1, 2, -2, 999_999_999, 1_000_000_000, 1_000_000_001, (1 << 24) - 1, 1 << 24, (1 << 24) + 1, (1 << 53) + 1, i64::MAX, i64::MIN + 1, i64::MAX / 2, -(1 << 40)];
        for &a in &edge {
            for &b in &edge {
                for form in all_forms() {
                    if matches!(form, Form::Mixed(_) | Form::QuantityToTime | Form::QuantityToInt) {
                        continue;
                    }
                    sink(Scenario { a, b, v: 1.0, w: 1.0, unit: (0, 1), form });
                    n += 1;
                }
            }
        }
        // result-targeted pairs: the exact result is i64::MAX, MAX-1, MIN or MIN+1 (2^63-1 = 7^2*73*127*337*92737*649657)
        let max = i64::MAX;
        let divisors: [i64; 12] = [1, 7, 49, 73, 127, 337, 511, 889, 9271, 92737, 649657, 2147483647 / 1];
        for f in INT_FORMS {
            let mut pairs: Vec<(i64, i64)> = Vec::new();
            use IntForm::*;
            match f {
                TAddT | TAddAssignT | DAddD | DAddAssignD => {
                    for x in [0i64, 1, 7, 1 << 40, max / 2] {
                        pairs.extend([(max - x, x), (max - 1 - x, x), (i64::MIN + x, -x), (i64::MIN + 1 + x, -x)]);
                    }
                }
                TSubT | TSubAssignT | DSubD | DSubAssignD => {
                    for x in [0i64, 1, 7, 1 << 40, max / 2] {
                        pairs.extend([(max - x, -x), (i64::MIN + x, x), (max - 1 - x, -x)]);
                    }
                }
                TMulD | TMulAssignD | DMulT | DMulD | DMulAssignD => {
                    for d in divisors {
                        if max % d == 0 {
                            pairs.extend([(max / d, d), (d, max / d), (-(max / d), -d), (max / d, -d)]);
                        }
                    }
                    for k in 0..=62u32 {
                        pairs.push((-(1i64 << k), 1i64 << (63 - k).min(62)));
                    }
                    pairs.extend([(i64::MIN / 2, 2), (2, i64::MIN / 2), (i64::MIN / 4, 4)]);
                }
                TDivD | TDivAssignD | DDivD | DDivAssignD => pairs.extend([(max, 1), (max, -1), (i64::MIN + 1, -1), (i64::MIN, 1), (max, 7), (i64::MIN, 2)]),
                TNeg | DNeg => pairs.extend([(max, 0), (i64::MIN + 1, 0), (-max, 0)]),
            }
            for (a, b) in pairs {
                sink(Scenario { a, b, v: 1.0, w: 1.0, unit: (0, 1), form: Form::Int(f) });
                n += 1;
            }
        }
        // monotonicity around every whole second up to +-20 000 s (a "whole seconds are exact" shortcut makes Time -> Quantity
        // non-monotone exactly there), and around the first powers of ten in ns
        for k in -20_000i64..=20_000 {
            let t = k * 1_000_000_000;
            sink(Scenario { a: t - 1, b: t, v: 1.0, w: 1.0, unit: (0, 1), form: Form::TimeToQuantity });
            sink(Scenario { a: t, b: t + 1, v: 1.0, w: 1.0, unit: (0, 1), form: Form::TimeToQuantity });
            n += 2;
        }
        vec![format!("49 units x try_from conversions x 4 values, 49 units x mixed operator forms, 16x16 boundary operands x integer/conversion forms, result-targeted pairs whose exact result is i64::MAX / MAX-1 / MIN / MIN+1, Time -> Quantity monotone across every whole second in +-20000 s ({} cases)", n)]
    }
    fn check(s: &Scenario) -> CheckResult {
        check(s)
    }
    fn assumptions() -> Vec<String> {
        vec!["integer operands are restricted to pairs whose exact result fits in i64 and whose divisor is non-zero (overflow behaviour is not part of the statement)".into(), "f32 seconds below 9e9 so that value*1e9 is representable in i64".into()]
    }
}
