//! C01 — dimensional analysis: unit exponents compose additively, mismatches panic.
use crate::common::*;
use crate::ensure;
use proptest::prelude::*;
use rrtk::*;
use serde::{Deserialize, Serialize};

#[derive(Clone, Copy, Debug, Serialize, Deserialize, PartialEq, Eq, Hash)]
pub enum Ty {
    Q,
    T,
    D,
}
#[derive(Clone, Copy, Debug, Serialize, Deserialize, PartialEq, Eq, Hash)]
pub enum OpK {
    Add,
    Sub,
    Mul,
    Div,
}
#[derive(Clone, Copy, Debug, Serialize, Deserialize, PartialEq, Eq, Hash)]
pub enum Form {
    Bin { l: Ty, r: Ty, op: OpK, assign: bool },
    UnitBin { op: OpK, assign: bool },
    Neg,
    Abs,
    UnitNeg,
    /// 0 <, 1 <=, 2 >, 3 >=, 4 partial_cmp
    Cmp(u8),
    /// 5 ==, (never panics)
    Eq,
    ConvPdUnit(u8),
    ConvUnitPd,
    ConvCmdQ(u8),
    ConvQCmd,
    ConvPieceUnit(u8),
    /// the named constant with this index has the exponents its name states (u1 ignored)
    Constant(u8),
}
#[derive(Clone, Debug, Serialize, Deserialize)]
pub struct Scenario {
    pub u1: (i8, i8),
    pub u2: (i8, i8),
    pub a: f32,
    pub b: f32,
    pub n: i64,
    /// the integer of a right-hand Time / DimensionlessInteger operand; absent (older replay files): derived from `n`
    #[serde(default)]
    pub n2: Option<i64>,
    pub form: Form,
}

macro_rules! named_units {
    ($($n:ident),* $(,)?) => { [$((stringify!($n), rrtk::$n)),*] };
}
pub fn constants() -> [(&'static str, Unit); 49] {
    named_units![
        INVERSE_MILLIMETER_CUBED_SECOND_CUBED, INVERSE_MILLIMETER_CUBED_SECOND_SQUARED, INVERSE_MILLIMETER_CUBED_SECOND, INVERSE_MILLIMETER_CUBED,
        SECOND_PER_MILLIMETER_CUBED, SECOND_SQUARED_PER_MILLIMETER_CUBED, SECOND_CUBED_PER_MILLIMETER_CUBED,
        INVERSE_MILLIMETER_SQUARED_SECOND_CUBED, INVERSE_MILLIMETER_SQUARED_SECOND_SQUARED, INVERSE_MILLIMETER_SQUARED_SECOND, INVERSE_MILLIMETER_SQUARED,
        SECOND_PER_MILLIMETER_SQUARED, SECOND_SQUARED_PER_MILLIMETER_SQUARED, SECOND_CUBED_PER_MILLIMETER_SQUARED,
        INVERSE_MILLIMETER_SECOND_CUBED, INVERSE_MILLIMETER_SECOND_SQUARED, INVERSE_MILLIMETER_SECOND, INVERSE_MILLIMETER,
        SECOND_PER_MILLIMETER, SECOND_SQUARED_PER_MILLIMETER, SECOND_CUBED_PER_MILLIMETER,
        INVERSE_SECOND_CUBED, INVERSE_SECOND_SQUARED, INVERSE_SECOND, DIMENSIONLESS, SECOND, SECOND_SQUARED, SECOND_CUBED,
        MILLIMETER_PER_SECOND_CUBED, MILLIMETER_PER_SECOND_SQUARED, MILLIMETER_PER_SECOND, MILLIMETER, MILLIMETER_SECOND, MILLIMETER_SECOND_SQUARED, MILLIMETER_SECOND_CUBED,
        MILLIMETER_SQUARED_PER_SECOND_CUBED, MILLIMETER_SQUARED_PER_SECOND_SQUARED, MILLIMETER_SQUARED_PER_SECOND, MILLIMETER_SQUARED, MILLIMETER_SQUARED_SECOND, MILLIMETER_SQUARED_SECOND_SQUARED, MILLIMETER_SQUARED_SECOND_CUBED,
        MILLIMETER_CUBED_PER_SECOND_CUBED, MILLIMETER_CUBED_PER_SECOND_SQUARED, MILLIMETER_CUBED_PER_SECOND, MILLIMETER_CUBED, MILLIMETER_CUBED_SECOND, MILLIMETER_CUBED_SECOND_SQUARED, MILLIMETER_CUBED_SECOND_CUBED,
    ]
}
/// The exponents a constant's *name* states: `[INVERSE_] unit [_SQUARED|_CUBED] ... [PER_ ...]`.
pub fn parse_name(name: &str) -> (i8, i8) {
    if name == "DIMENSIONLESS" {
        return (0, 0);
    }
    let toks: Vec<&str> = name.split('_').collect();
    let (mut mm, mut s) = (0i8, 0i8);
    let mut sign = 1i8;
    let mut i = 0;
    while i < toks.len() {
        match toks[i] {
            "INVERSE" | "PER" => sign = -1,
            u @ ("MILLIMETER" | "SECOND") => {
                let mut p = 1;
                if i + 1 < toks.len() {
                    if toks[i + 1] == "SQUARED" {
                        p = 2;
                        i += 1;
                    } else if toks[i + 1] == "CUBED" {
                        p = 3;
                        i += 1;
                    }
                }
                if u == "MILLIMETER" {
                    mm += sign * p;
                } else {
                    s += sign * p;
                }
            }
            other => panic!("unparsable token {} in constant name {}", other, name),
        }
        i += 1;
    }
    (mm, s)
}

#[derive(Clone, Copy)]
pub enum Operand {
    Q(Quantity),
    T(Time),
    D(DimensionlessInteger),
}
pub fn exec_bin(l: Operand, r: Operand, op: OpK, assign: bool) -> Option<Quantity> {
    use OpK::*;
    use Operand::*;
    macro_rules! asg {
        ($x:expr, $y:expr, $o:tt) => {{
            let mut x = $x;
            x $o $y;
            Some(x)
        }};
    }
    match (l, r, op, assign) {
        (Q(x), Q(y), Add, false) => Some(x + y),
        (Q(x), Q(y), Sub, false) => Some(x - y),
        (Q(x), Q(y), Mul, false) => Some(x * y),
        (Q(x), Q(y), Div, false) => Some(x / y),
        (Q(x), Q(y), Add, true) => asg!(x, y, +=),
        (Q(x), Q(y), Sub, true) => asg!(x, y, -=),
        (Q(x), Q(y), Mul, true) => asg!(x, y, *=),
        (Q(x), Q(y), Div, true) => asg!(x, y, /=),
        (Q(x), T(y), Add, false) => Some(x + y),
        (Q(x), T(y), Sub, false) => Some(x - y),
        (Q(x), T(y), Mul, false) => Some(x * y),
        (Q(x), T(y), Div, false) => Some(x / y),
        (Q(x), T(y), Add, true) => asg!(x, y, +=),
        (Q(x), T(y), Sub, true) => asg!(x, y, -=),
        (Q(x), T(y), Mul, true) => asg!(x, y, *=),
        (Q(x), T(y), Div, true) => asg!(x, y, /=),
        (Q(x), D(y), Add, false) => Some(x + y),
        (Q(x), D(y), Sub, false) => Some(x - y),
        (Q(x), D(y), Mul, false) => Some(x * y),
        (Q(x), D(y), Div, false) => Some(x / y),
        (Q(x), D(y), Add, true) => asg!(x, y, +=),
        (Q(x), D(y), Sub, true) => asg!(x, y, -=),
        (Q(x), D(y), Mul, true) => asg!(x, y, *=),
        (Q(x), D(y), Div, true) => asg!(x, y, /=),
        (T(x), Q(y), Add, false) => Some(x + y),
        (T(x), Q(y), Sub, false) => Some(x - y),
        (T(x), Q(y), Mul, false) => Some(x * y),
        (T(x), Q(y), Div, false) => Some(x / y),
        (D(x), Q(y), Add, false) => Some(x + y),
        (D(x), Q(y), Sub, false) => Some(x - y),
        (D(x), Q(y), Mul, false) => Some(x * y),
        (D(x), Q(y), Div, false) => Some(x / y),
        (T(x), T(y), Mul, false) => Some(x * y),
        (T(x), T(y), Div, false) => Some(x / y),
        (D(x), T(y), Div, false) => Some(x / y),
        _ => None,
    }
}
pub fn bin_forms() -> Vec<Form> {
    let mut v = Vec::new();
    let q = Quantity::dimensionless(1.0);
    for l in [Ty::Q, Ty::T, Ty::D] {
        for r in [Ty::Q, Ty::T, Ty::D] {
            for op in [OpK::Add, OpK::Sub, OpK::Mul, OpK::Div] {
                for assign in [false, true] {
                    let mk = |t: Ty| match t {
                        Ty::Q => Operand::Q(q),
                        Ty::T => Operand::T(Time(1_000_000_000)),
                        Ty::D => Operand::D(DimensionlessInteger(1)),
                    };
                    // dimensionless + second would panic for the additive probes; only existence matters here
                    if catch(|| exec_bin(mk(l), mk(r), op, assign)).map(|x| x.is_some()).unwrap_or(true) {
                        v.push(Form::Bin { l, r, op, assign });
                    }
                }
            }
        }
    }
    v
}
pub fn all_forms() -> Vec<Form> {
    let mut v = bin_forms();
    for op in [OpK::Add, OpK::Sub, OpK::Mul, OpK::Div] {
        for assign in [false, true] {
            v.push(Form::UnitBin { op, assign });
        }
    }
    v.extend([Form::Neg, Form::Abs, Form::UnitNeg, Form::Eq]);
    v.extend((0..5).map(Form::Cmp));
    v
}
pub fn unary_forms() -> Vec<Form> {
    let mut v = vec![Form::ConvUnitPd, Form::ConvQCmd];
    v.extend((0..3).map(Form::ConvPdUnit));
    v.extend((0..3).map(Form::ConvCmdQ));
    v.extend((0..5).map(Form::ConvPieceUnit));
    v
}

fn virt(t: Ty, val: f32, u: (i8, i8), n: i64) -> (Operand, f32, (i8, i8)) {
    match t {
        Ty::Q => (Operand::Q(Quantity::new(val, Unit::new(u.0, u.1))), val, u),
        Ty::T => (Operand::T(Time(n)), n as f32 / 1_000_000_000.0, (0, 1)),
        Ty::D => (Operand::D(DimensionlessInteger(n)), n as f32, (0, 0)),
    }
}
fn raw(op: OpK, a: f32, b: f32) -> f32 {
    match op {
        OpK::Add => a + b,
        OpK::Sub => a - b,
        OpK::Mul => a * b,
        OpK::Div => a / b,
    }
}
fn unit_res(op: OpK, a: (i8, i8), b: (i8, i8)) -> (i8, i8) {
    match op {
        OpK::Add | OpK::Sub => a,
        OpK::Mul => (a.0 + b.0, a.1 + b.1),
        OpK::Div => (a.0 - b.0, a.1 - b.1),
    }
}
fn pd_unit(k: u8) -> (i8, i8) {
    match k % 3 {
        0 => (1, 0),
        1 => (1, -1),
        _ => (1, -2),
    }
}
fn pd(k: u8) -> PositionDerivative {
    match k % 3 {
        0 => PositionDerivative::Position,
        1 => PositionDerivative::Velocity,
        _ => PositionDerivative::Acceleration,
    }
}

pub fn check(s: &Scenario) -> CheckResult {
    let (u1, u2) = (s.u1, s.u2);
    let site = format!("{:?}", s.form);
    let mut nontrivial = false;
    match s.form {
        Form::Bin { l, r, op, assign } => {
            let (lo, lv, lu) = virt(l, s.a, u1, s.n);
            let (ro, rv, ru) = virt(r, s.b, u2, s.n2.unwrap_or(s.n.wrapping_mul(3).wrapping_add(7)));
            let additive = matches!(op, OpK::Add | OpK::Sub);
            let should_panic = additive && lu != ru;
            let got = catch(|| exec_bin(lo, ro, op, assign));
            match got {
                Err(msg) => ensure!(should_panic, format!("C01/{}/unexpected-panic", site), "{:?} on units {:?},{:?} panicked although {}: {}", s.form, lu, ru, if additive { "the units are equal" } else { "multiplication/division never panics" }, msg),
                Ok(None) => unreachable!("form list only contains implemented combinations"),
                Ok(Some(q)) => {
                    ensure!(!should_panic, format!("C01/{}/missing-panic", site), "{:?} on differing units {:?} and {:?} returned {:?} instead of panicking", s.form, lu, ru, q);
                    let eu = unit_res(op, lu, ru);
                    ensure!(q.unit == Unit::new(eu.0, eu.1), format!("C01/{}/unit", site), "{:?} on units {:?},{:?}: result unit {:?}, expected exponents {:?}", s.form, lu, ru, q.unit, eu);
                    let ev = raw(op, lv, rv);
                    ensure!(bits_eq(q.value, ev), format!("C01/{}/value", site), "{:?}: value {:e} ({:#x}) but the f32 operator on the raw values gives {:e} ({:#x})", s.form, q.value, q.value.to_bits(), ev, ev.to_bits());
                    nontrivial = eu != lu && eu != ru;
                }
            }
            nontrivial |= should_panic;
        }
        Form::UnitBin { op, assign } => {
            let (a, b) = (Unit::new(u1.0, u1.1), Unit::new(u2.0, u2.1));
            let additive = matches!(op, OpK::Add | OpK::Sub);
            let should_panic = additive && u1 != u2;
            let got = catch(|| {
                if assign {
                    let mut x = a;
                    match op {
                        OpK::Add => x += b,
                        OpK::Sub => x -= b,
                        OpK::Mul => x *= b,
                        OpK::Div => x /= b,
                    }
                    x
                } else {
                    match op {
                        OpK::Add => a + b,
                        OpK::Sub => a - b,
                        OpK::Mul => a * b,
                        OpK::Div => a / b,
                    }
                }
            });
            // the same operation on quantities carrying those units
            let qgot = catch(|| exec_bin(Operand::Q(Quantity::new(1.0, a)), Operand::Q(Quantity::new(2.0, b)), op, assign).unwrap().unit);
            match (&got, &qgot) {
                (Ok(x), Ok(y)) => ensure!(x == y, format!("C01/{}/unit-vs-quantity", site), "bare-unit {:?} gives {:?} but the quantity operator gives unit {:?}", s.form, x, y),
                (Err(_), Err(_)) => {}
                _ => return Err(Violation::new(format!("C01/{}/unit-vs-quantity", site), format!("bare-unit {:?} on {:?},{:?} {} but the same operator on quantities {}", s.form, u1, u2, if got.is_err() { "panics" } else { "returns" }, if qgot.is_err() { "panics" } else { "returns" }))),
            }
            match got {
                Err(msg) => ensure!(should_panic, format!("C01/{}/unexpected-panic", site), "bare-unit {:?} on {:?},{:?} panicked: {}", s.form, u1, u2, msg),
                Ok(u) => {
                    ensure!(!should_panic, format!("C01/{}/missing-panic", site), "bare-unit {:?} on differing units {:?},{:?} did not panic", s.form, u1, u2);
                    let eu = unit_res(op, u1, u2);
                    ensure!(u == Unit::new(eu.0, eu.1), format!("C01/{}/unit", site), "bare-unit {:?} on {:?},{:?}: got {:?}, expected exponents {:?}", s.form, u1, u2, u, eu);
                    nontrivial = eu != u1 && eu != u2;
                }
            }
            nontrivial |= should_panic;
        }
        Form::Neg | Form::Abs => {
            let q = Quantity::new(s.a, Unit::new(u1.0, u1.1));
            let got = catch(|| if s.form == Form::Neg { -q } else { q.abs() });
            ensure!(got.is_ok(), format!("C01/{}/unexpected-panic", site), "{:?} panicked", s.form);
            let got = got.unwrap();
            let ev = if s.form == Form::Neg { -s.a } else { s.a.abs() };
            ensure!(got.unit == q.unit, format!("C01/{}/unit", site), "{:?} changed the unit {:?} -> {:?}", s.form, q.unit, got.unit);
            ensure!(bits_eq(got.value, ev), format!("C01/{}/value", site), "{:?} of {:e}: got {:e}, expected {:e}", s.form, s.a, got.value, ev);
            nontrivial = s.a.is_sign_negative() || s.a == 0.0;
        }
        Form::UnitNeg => {
            let u = Unit::new(u1.0, u1.1);
            let got = catch(|| -u);
            ensure!(got.is_ok() && got.unwrap() == u, "C01/UnitNeg/unit", "negating the bare unit {:?} changed it or panicked", u1);
        }
        Form::Cmp(k) => {
            let (x, y) = (Quantity::new(s.a, Unit::new(u1.0, u1.1)), Quantity::new(s.b, Unit::new(u2.0, u2.1)));
            let should_panic = u1 != u2;
            let got: Result<Option<bool>, String> = catch(|| match k % 5 {
                0 => Some(x < y),
                1 => Some(x <= y),
                2 => Some(x > y),
                3 => Some(x >= y),
                _ => x.partial_cmp(&y).map(|o| o == std::cmp::Ordering::Less),
            });
            match got {
                Err(msg) => ensure!(should_panic, format!("C01/{}/unexpected-panic", site), "ordering quantities of equal unit {:?} panicked: {}", u1, msg),
                Ok(r) => {
                    ensure!(!should_panic, format!("C01/{}/missing-panic", site), "ordering quantities of differing units {:?} and {:?} did not panic", u1, u2);
                    let want = match k % 5 {
                        0 => Some(s.a < s.b),
                        1 => Some(s.a <= s.b),
                        2 => Some(s.a > s.b),
                        3 => Some(s.a >= s.b),
                        _ => s.a.partial_cmp(&s.b).map(|o| o == std::cmp::Ordering::Less),
                    };
                    ensure!(r == want, format!("C01/{}/value", site), "ordering {:e} vs {:e}: got {:?}, the raw f32 comparison gives {:?}", s.a, s.b, r, want);
                }
            }
            nontrivial = should_panic;
        }
        Form::Eq => {
            let (x, y) = (Quantity::new(s.a, Unit::new(u1.0, u1.1)), Quantity::new(s.b, Unit::new(u2.0, u2.1)));
            let got = catch(|| (x == y, x == x));
            ensure!(got.is_ok(), "C01/Eq/unexpected-panic", "== on quantities panicked");
            let (xy, xx) = got.unwrap();
            ensure!(xy == (u1 == u2 && s.a == s.b), "C01/Eq/value", "{:?} == {:?} returned {}", x, y, xy);
            ensure!(xx == (s.a == s.a), "C01/Eq/reflexive", "{:?} == itself returned {}", x, xx);
            nontrivial = u1 != u2;
        }
        Form::ConvPdUnit(k) => {
            let u = Unit::from(pd(k));
            let e = pd_unit(k);
            ensure!(u == Unit::new(e.0, e.1), format!("C01/{}/unit", site), "Unit::from({:?}) = {:?}, expected {:?}", pd(k), u, e);
            nontrivial = true;
        }
        Form::ConvUnitPd => {
            let got = PositionDerivative::try_from(Unit::new(u1.0, u1.1));
            let want = (0..3u8).find(|k| pd_unit(*k) == u1).map(pd);
            ensure!(got.ok() == want, "C01/ConvUnitPd/value", "PositionDerivative::try_from(unit {:?}) = {:?}, expected {:?}", u1, got, want);
            nontrivial = true;
        }
        Form::ConvCmdQ(k) => {
            let q = Quantity::from(Command::new(pd(k), s.a));
            let e = pd_unit(k);
            ensure!(q.unit == Unit::new(e.0, e.1) && bits_eq(q.value, s.a), format!("C01/{}/value", site), "Quantity::from(Command {:?} {:e}) = {:?}", pd(k), s.a, q);
            nontrivial = true;
        }
        Form::ConvQCmd => {
            let got = Command::try_from(Quantity::new(s.a, Unit::new(u1.0, u1.1)));
            let want = (0..3u8).find(|k| pd_unit(*k) == u1).map(|k| Command::new(pd(k), s.a));
            let same = match (got, want) {
                (Err(()), None) => true,
                (Ok(g), Some(w)) => PositionDerivative::from(g) == PositionDerivative::from(w) && bits_eq(f32::from(g), f32::from(w)),
                _ => false,
            };
            ensure!(same, "C01/ConvQCmd/value", "Command::try_from(quantity {:e} of unit {:?}) = {:?}, expected {:?}", s.a, u1, got, want);
            nontrivial = true;
        }
        Form::ConvPieceUnit(k) => {
            let pieces = [MotionProfilePiece::BeforeStart, MotionProfilePiece::InitialAcceleration, MotionProfilePiece::ConstantVelocity, MotionProfilePiece::EndAcceleration, MotionProfilePiece::Complete];
            let piece = pieces[k as usize % 5];
            let got = Unit::try_from(piece);
            let want = match k % 5 {
                1 | 3 => Some((1i8, -2i8)),
                2 => Some((1, -1)),
                _ => None,
            };
            ensure!(got.ok() == want.map(|e| Unit::new(e.0, e.1)), format!("C01/{}/value", site), "Unit::try_from({:?}) = {:?}, expected exponents {:?}", piece, got, want);
            nontrivial = true;
        }
        Form::Constant(i) => {
            let cs = constants();
            let (name, unit) = cs[i as usize % cs.len()];
            let e = parse_name(name);
            ensure!(unit == Unit::new(e.0, e.1), format!("C01/constant/{}", name), "the constant {} is {:?} but its name states exponents {:?}", name, unit, e);
            nontrivial = true;
        }
    }
    Ok(CaseInfo::new(nontrivial, hash_of(&(u1, u2, s.form))).class_if(u1 != u2, "units differ"))
}

fn grid() -> Vec<(i8, i8)> {
    let mut v = Vec::new();
    for m in -3i8..=3 {
        for s in -3i8..=3 {
            v.push((m, s));
        }
    }
    v
}

pub struct C01;
impl Property for C01 {
    const ID: &'static str = "C01";
    const RULE: &'static str = "exhaustive: all 49x49 ordered pairs of grid units x every operator form (35 Quantity/Time/DimensionlessInteger binary and assign forms that yield a Quantity, 8 bare-Unit forms, neg, abs, ==, 5 ordering forms) x 3 value pairs; 49 named constants vs a parser of their names; conversions over all 49 units. Random: units with exponents in [-60,60] (equal pairs forced 1 in 4), any finite f32 incl. subnormals/-0, i64 operands (left and right drawn separately, incl. 0, +-1, i64::MIN/MAX and integers equal to the other operand as a number). Oracle: independent exponent arithmetic, the raw f32 operator (bitwise), panic iff additive/ordering form on differing units. Non-trivial = units differ (panic arm) or the result unit differs from both operand units, or a conversion/constant case; distinct = (unit pair, form).";
    type Scenario = Scenario;
    fn strategy(_tier: Tier) -> BoxedStrategy<Scenario> {
        let forms = all_forms();
        let unit = || (-60i8..=60, -60i8..=60);
        // operand values: independent in general; in 1 case of 5 the operands are *equal as numbers* (an integer and the same
        // number as f32, a whole number of seconds and the same number as f32, the same f32 twice), so that differences cancel
        // to a signed zero and quotients are exactly one
        let values = prop_oneof![
            6 => (gen::finite_f32(), gen::finite_f32(), prop_oneof![3 => any::<i64>().prop_map(|x| x >> 20), 3 => any::<i64>(), 2 => gen::tie_i64()], Just(None)),
            // the right-hand integer drawn directly: any value, and the ends and the middle of the range (a zero divisor, the
            // integer whose negation does not exist)
            2 => (gen::finite_f32(), gen::finite_f32(), any::<i64>(), prop_oneof![2 => any::<i64>(), 1 => gen::tie_i64(), 3 => proptest::sample::select(vec![0i64, 1, -1, i64::MIN, i64::MAX, i64::MIN + 1, 1_000_000_000, -1_000_000_000])].prop_map(Some)),
            1 => (-1000i64..=1000).prop_map(|n| (n as f32, n as f32, n, Some(n))),
            1 => (-8i64..=8).prop_map(|k| (k as f32, k as f32, k * 1_000_000_000, Some(k * 1_000_000_000))),
        ];
        (unit(), unit(), any::<bool>(), any::<bool>(), values, proptest::sample::select(forms))
            .prop_map(|(u1, u2, same1, same2, (a, b, n, n2), form)| Scenario { u1, u2: if same1 && same2 { u1 } else { u2 }, a, b, n, n2, form })
            .boxed()
    }
    fn cases(tier: Tier) -> u32 {
        tier.pick(100_000, 1_600_000)
    }
    fn exhaustive(_tier: Tier, sink: &mut dyn FnMut(Scenario)) -> Vec<String> {
        let g = grid();
        let forms = all_forms();
        let vals = [(1.5f32, -2.25f32, 3_500_000_000i64), (0.0, -0.0, -1), (3.0e38, 2.9e38, i64::MAX / 3)];
        let mut n = 0u64;
        for &u1 in &g {
            for &u2 in &g {
                for &form in &forms {
                    for &(a, b, nn) in &vals {
                        sink(Scenario { u1, u2, a, b, n: nn, n2: None, form });
                        n += 1;
                    }
                }
            }
        }
        // cancellation: operands equal as numbers, on the unit pairs where the mixed forms do not panic (dimensionless with
        // DimensionlessInteger, seconds with Time) and on a few equal pairs for the Quantity-Quantity forms
        for &u in &[(0i8, 0i8), (0, 1), (1, 0), (1, -2)] {
            for &form in &forms {
                for &(a, b, nn) in &[(3.0f32, 3.0f32, 3i64), (0.0, 0.0, 0), (-0.0, -0.0, 0), (2.0, 2.0, 2_000_000_000), (-7.0, -7.0, -7), (-1.0, -1.0, -1_000_000_000)] {
                    sink(Scenario { u1: u, u2: u, a, b, n: nn, n2: None, form });
                    sink(Scenario { u1: u, u2: u, a, b, n: nn, n2: Some(nn), form });
                    n += 2;
                }
                // a right-hand integer at the ends and the middle of its range against ordinary and signed-zero left values
                for &a in &[4.0f32, -0.0, 0.0, -2.5e-3] {
                    for &n2 in &[0i64, i64::MIN, i64::MAX, -1, 1] {
                        sink(Scenario { u1: u, u2: u, a, b: a, n: 5, n2: Some(n2), form });
                        n += 1;
                    }
                }
            }
        }
        for &u1 in &g {
            for form in unary_forms() {
                sink(Scenario { u1, u2: u1, a: -7.25, b: 0.0, n: 0, n2: None, form });
                n += 1;
            }
        }
        // the constant table must cover the grid exactly once
        let cs = constants();
        let mut seen = std::collections::HashSet::new();
        for (i, (name, _)) in cs.iter().enumerate() {
            seen.insert(parse_name(name));
            sink(Scenario { u1: (0, 0), u2: (0, 0), a: 0.0, b: 0.0, n: 0, n2: None, form: Form::Constant(i as u8) });
            n += 1;
        }
        assert_eq!(seen.len(), 49, "constant names do not cover the 7x7 grid");
        vec![format!("49x49 unit pairs x {} forms x 3 value pairs, conversions over 49 units, 49 named constants ({} cases)", forms.len(), n)]
    }
    fn check(s: &Scenario) -> CheckResult {
        check(s)
    }
    fn assumptions() -> Vec<String> {
        vec!["rrtk is built with dimension checking on (dim_check_debug + debug assertions), the configuration the statement is about".into(), "units are observed only through equality with Unit::new(m, s)".into()]
    }
}
