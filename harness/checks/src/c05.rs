//! C05 — stateful streams: no stale errors, reset erases history, get is pure.
use crate::common::*;
use crate::ensure;
use crate::sut::*;
use proptest::prelude::*;
use serde::{Deserialize, Serialize};

#[derive(Clone, Debug, Serialize, Deserialize)]
pub struct Scenario {
    pub kind: Kind,
    pub params: Params,
    pub t0: i64,
    pub events: Vec<Ev>,
    /// extra get() calls after each event (index modulo length)
    pub gets: Vec<u8>,
    /// freeze only: condition per step (index modulo length)
    pub cond: Vec<CondEv>,
}

fn normalized(kind: Kind, mut p: Params) -> Params {
    if let Some(u) = required_unit(kind) {
        p.unit = u;
    }
    if matches!(kind, Kind::EwmaF32 | Kind::EwmaQuantity) {
        p.x = (p.x.abs() % 1.0).clamp(0.0, 1.0);
    }
    p
}

/// Is event `e` one that stream `kind` documents as a reset?
fn is_reset(kind: Kind, e: &Ev) -> bool {
    match kind {
        Kind::Pid | Kind::CommandPid | Kind::Integral | Kind::Derivative => !e.is_present(),
        Kind::EwmaF32 | Kind::EwmaQuantity | Kind::MovingAverageF32 | Kind::MovingAverageQuantity | Kind::AccelerationToState | Kind::VelocityToState | Kind::PositionToState => matches!(e, Ev::E(_)),
        Kind::FloatToQuantity | Kind::QuantityToFloat => true,
        Kind::Freeze => false,
    }
}
fn ignores_absent(kind: Kind) -> bool {
    matches!(kind, Kind::EwmaF32 | Kind::EwmaQuantity | Kind::MovingAverageF32 | Kind::MovingAverageQuantity | Kind::AccelerationToState | Kind::VelocityToState | Kind::PositionToState)
}

/// Run a history (with absolute times) on a fresh stream, one get() per event.
fn run_plain(kind: Kind, p: &Params, events: &[Ev], times: &[i64], cond: &[CondEv], cond_offset: usize) -> Vec<Obs> {
    let mut sut = build(kind, p);
    let mut out = Vec::with_capacity(events.len());
    for (i, ev) in events.iter().enumerate() {
        (sut.feed)(ev, times[i]);
        if kind == Kind::Freeze {
            (sut.feed_cond)(&cond[(cond_offset + i) % cond.len()], times[i]);
        }
        let _ = (sut.update)();
        out.push((sut.get)());
    }
    out
}

pub fn check(s: &Scenario) -> CheckResult {
    let kind = s.kind;
    let p = normalized(kind, s.params);
    let times = times_of(s.t0, &s.events);
    let cond: Vec<CondEv> = if s.cond.is_empty() { vec![CondEv::F] } else { s.cond.clone() };
    let kname = format!("{:?}", kind);

    // ---- original run, with interleaved extra get()s: (a) no stale error, (d) purity ----
    let mut sut = build(kind, &p);
    let mut outs: Vec<Obs> = Vec::with_capacity(s.events.len());
    // freeze bookkeeping
    let mut frozen_ref: Option<Obs> = None; // what the input returned at the last false update
    let mut dirty = true; // an Absent/Err condition (or nothing yet) since the last false update
    for (i, ev) in s.events.iter().enumerate() {
        (sut.feed)(ev, times[i]);
        let c = cond[i % cond.len()];
        if kind == Kind::Freeze {
            (sut.feed_cond)(&c, times[i]);
        }
        let _ = (sut.update)();
        let first = (sut.get)();
        let extra = if s.gets.is_empty() { 0 } else { s.gets[i % s.gets.len()] % 4 };
        for g in 0..extra {
            let again = (sut.get)();
            ensure!(again.same(&first), format!("C05/{}/get-not-pure", kname), "event {}: get() #{} returned {:?} after get() returned {:?} with no update in between", i, g + 2, again, first);
        }
        // the input changes, but the stream is not updated: get() still reports what it saw at its most recent update
        // (no error the input did not return *at that update*, same value as every other get() since)
        let other = match ev {
            Ev::P(..) => Ev::E(if i % 2 == 0 { 1 } else { 2 }),
            Ev::A => Ev::E(2),
            Ev::E(_) => Ev::P(12.5, 0),
        };
        (sut.feed)(&other, times[i]);
        let unmoved = (sut.get)();
        ensure!(unmoved.same(&first), format!("C05/{}/get-follows-input", kname), "event {} ({:?}): after the input changed to {:?} WITHOUT an update, get() returns {:?}; at the most recent update it returned {:?}", i, ev, other, unmoved, first);
        (sut.feed)(ev, times[i]);
        let input_now = match ev {
            Ev::P(v, _) => Obs::Some(times[i], vec![*v]),
            Ev::A => Obs::None,
            Ev::E(e) => Obs::Err(exp_code(*e)),
        };
        if kind != Kind::Freeze {
            if let Obs::Err(code) = first {
                let ok = matches!(ev, Ev::E(e) if exp_code(*e) == code);
                ensure!(ok, format!("C05/{}/stale-error", kname), "event {} ({:?}): get() returns Err({}) although the input did not return that error at the most recent update (history {:?})", i, ev, code, &s.events[..=i]);
            }
        } else {
            match c {
                CondEv::F => {
                    ensure!(first.same(&input_now), "C05/Freeze/false-not-passthrough", "event {}: condition false but get() = {:?}, input returned {:?}", i, first, input_now);
                    frozen_ref = Some(input_now.clone());
                    dirty = false;
                }
                CondEv::A => {
                    ensure!(first == Obs::None, "C05/Freeze/absent-condition", "event {}: condition absent but get() = {:?}", i, first);
                    dirty = true;
                }
                CondEv::E(_) => {
                    dirty = true;
                }
                CondEv::T => {
                    if !dirty {
                        let want = frozen_ref.clone().unwrap();
                        ensure!(first.same(&want), "C05/Freeze/not-frozen", "event {}: condition true; get() = {:?} but the input returned {:?} at the last false update", i, first, want);
                    }
                }
            }
        }
        outs.push(first);
    }

    // ---- (d) twin with exactly one get() per update ----
    let twin = run_plain(kind, &p, &s.events, &times, &cond, 0);
    for i in 0..outs.len() {
        ensure!(twin[i].same(&outs[i]), format!("C05/{}/get-count-matters", kname), "event {}: a twin stream that received a different number of get() calls returns {:?} instead of {:?}", i, twin[i], outs[i]);
    }

    // ---- (b) reset equivalence ----
    let mut reset_then_two = false;
    let mut resets_checked = 0;
    for k in 0..s.events.len() {
        if !is_reset(kind, &s.events[k]) {
            continue;
        }
        let later_present = s.events[k + 1..].iter().filter(|e| e.is_present()).count();
        if later_present >= 2 {
            reset_then_two = true;
        }
        // bound the quadratic cost: check the first 6 and the last reset
        if resets_checked >= 6 && s.events[k + 1..].iter().any(|e| is_reset(kind, e)) {
            continue;
        }
        resets_checked += 1;
        let fresh = run_plain(kind, &p, &s.events[k..], &times[k..], &cond, k);
        for j in 0..fresh.len() {
            ensure!(
                fresh[j].same(&outs[k + j]),
                format!("C05/{}/reset-not-clean", kname),
                "reset event #{} ({:?}): after event #{} the stream returns {:?} but a newly constructed stream fed only events {}.. returns {:?} (history {:?})",
                k, s.events[k], k + j, outs[k + j], k, fresh[j], s.events
            );
        }
    }

    // ---- (c) absent-ignoring ----
    if ignores_absent(kind) && s.events.iter().any(|e| *e == Ev::A) {
        let keep: Vec<usize> = (0..s.events.len()).filter(|&i| s.events[i] != Ev::A).collect();
        let ev2: Vec<Ev> = keep.iter().map(|&i| s.events[i]).collect();
        let t2: Vec<i64> = keep.iter().map(|&i| times[i]).collect();
        let without = run_plain(kind, &p, &ev2, &t2, &cond, 0);
        for (j, &i) in keep.iter().enumerate() {
            ensure!(without[j].same(&outs[i]), format!("C05/{}/absent-not-ignored", kname), "after event #{} the stream returns {:?}, but with the absent events deleted from the history it returns {:?} (history {:?})", i, outs[i], without[j], s.events);
        }
    }

    let kinds: Vec<u8> = s.events.iter().map(|e| e.kind_code()).collect();
    let err_then_present = s.events.windows(2).any(|w| matches!(w[0], Ev::E(_)) && w[1].is_present());
    let nontrivial = if kind == Kind::Freeze {
        s.events.len() >= 3 && cond.iter().take(s.events.len()).any(|c| *c == CondEv::T) && cond.iter().take(s.events.len()).any(|c| *c == CondEv::F)
    } else {
        reset_then_two
    };
    let ckinds: Vec<u8> = if kind == Kind::Freeze { (0..s.events.len()).map(|i| match cond[i % cond.len()] { CondEv::T => 0, CondEv::F => 1, CondEv::A => 2, CondEv::E(_) => 3 }).collect() } else { vec![] };
    Ok(CaseInfo::new(nontrivial, hash_of(&(kind, kinds, ckinds)))
        .class_if(reset_then_two, "reset followed by >= 2 present samples")
        .class_if(err_then_present, "error immediately followed by a present sample")
        .class_if(s.events.iter().any(|e| *e == Ev::A), "contains absent")
        .class_if(s.events.len() >= 16, "history >= 16 events"))
}

fn scenario_for(kind: Kind) -> BoxedStrategy<Scenario> {
    (
        params_strategy(),
        t0_strategy(),
        gen::with_runs(proptest::collection::vec(ev_strategy_with([6, 2, 1, 1], prop_oneof![9 => dt_pos(), 1 => Just(0i64)].boxed(), gen::mostly_moderate_any_finite()), 0..=48).boxed(), 40, 48),
        proptest::collection::vec(0u8..4, 1..=8),
        proptest::collection::vec(prop_oneof![4 => Just(CondEv::F), 4 => Just(CondEv::T), 1 => Just(CondEv::A), 1 => Just(CondEv::E(1)), 1 => Just(CondEv::E(2))], 1..=48),
    )
        .prop_map(move |(params, t0, events, gets, cond)| Scenario { kind, params, t0, events, gets, cond: if kind == Kind::Freeze { cond } else { vec![] } })
        .boxed()
}

pub struct C05;
impl Property for C05 {
    const ID: &'static str = "C05";
    const RULE: &'static str = "random histories (0..48 events: present sample with strictly increasing time / absent / Err(1) / Err(2), weights 6:2:1:1, plus 0..3 extra get() calls per step; freeze additionally an independent condition history over {true,false,absent,Err}) for each of the 14 stateful stream instantiations (the 12 types; EWMA and moving average in both their f32 and Quantity variants). Oracles on the real stream: get() is Err(e) only if the input returned Err(e) at the latest update; all get()s between updates agree - also after the input has changed without an update - and a twin with a different get() count stays identical; for every documented reset event k a fresh stream fed events k.. agrees from then on; deleting absent events changes nothing for absent-ignoring streams; freeze per its statement. Non-trivial = history has a reset event followed by >= 2 present samples (freeze: >= 3 events with both true and false conditions); distinct = (stream, sequence of event kinds).";
    type Scenario = Scenario;
    fn strategy(_tier: Tier) -> BoxedStrategy<Scenario> {
        proptest::sample::select(ALL_KINDS.to_vec()).prop_flat_map(scenario_for).boxed()
    }
    fn cases(tier: Tier) -> u32 {
        tier.pick(60_000, 300_000)
    }
    fn exhaustive(_tier: Tier, sink: &mut dyn FnMut(Scenario)) -> Vec<String> {
        // all event-kind sequences of length <= 5 for every stream (values fixed, dt varied)
        let alphabet = [Ev::P(1.5, 1_000_000_000), Ev::A, Ev::E(1), Ev::E(2), Ev::P(-2.0, 250_000_000)];
        let params = Params { k: [1.0, 0.5, 0.25], x: 0.5, cmd_kind: 1, window: 3_000_000_000, unit: (1, 0) };
        let mut n = 0u64;
        for kind in ALL_KINDS {
            for len in 0..=5usize {
                let total = alphabet.len().pow(len as u32);
                for code in 0..total {
                    let mut c = code;
                    let mut events = Vec::with_capacity(len);
                    for _ in 0..len {
                        events.push(alphabet[c % alphabet.len()]);
                        c /= alphabet.len();
                    }
                    sink(Scenario { kind, params, t0: 0, events, gets: vec![2, 0, 1], cond: if kind == Kind::Freeze { vec![CondEv::F, CondEv::T, CondEv::T, CondEv::A, CondEv::T, CondEv::F, CondEv::E(1), CondEv::T] } else { vec![] } });
                    n += 1;
                }
            }
        }
        vec![format!("all sequences of length <= 5 over a 5-letter event alphabet for each of the 14 stream instantiations ({} histories)", n)]
    }
    fn check(s: &Scenario) -> CheckResult {
        check(s)
    }
    fn valid(s: &Scenario) -> bool {
        let p = &s.params;
        p.k.iter().all(|x| dom::moderate(*x)) && dom::moderate(p.x) && p.cmd_kind < 3 && (1..=10_800_000_000_000).contains(&p.window) && dom::grid(p.unit) && dom::t0_span(s.t0) && s.events.len() <= 48 && s.gets.len() <= 8 && s.cond.len() <= 48 && (s.kind != Kind::Freeze || !s.cond.is_empty())
            && s.events.iter().all(|e| match e {
                Ev::P(v, dt) => dom::finite(*v) && (*dt == 0 || dom::dt_pos(*dt)),
                Ev::A => true,
                Ev::E(c) => *c <= 2,
            })
            && s.cond.iter().all(|c| !matches!(c, CondEv::E(x) if !(1..=2).contains(x)))
    }
    fn assumptions() -> Vec<String> {
        vec![
            "reset events per stream are those the rustdoc/source documents: PID, CommandPID, Integral, Derivative: absent and error; EWMA, moving average, to-state converters: error; float/quantity converters: every event".into(),
            "to-state converters are fed their required unit (wrong units are C10's panic arm)".into(),
        ]
    }
}
