//! C10 — integral, derivative and to-state streams equal trapezoid sums and differences.
use crate::common::*;
use crate::ensure;
use crate::rnum::{Headroom, R};
use crate::sut::*;
use proptest::prelude::*;
use rrtk::*;
use serde::{Deserialize, Serialize};

#[derive(Clone, Debug, Serialize, Deserialize)]
pub struct Scenario {
    pub kind: Kind,
    pub unit: (i8, i8),
    pub t0: i64,
    pub events: Vec<Ev>,
    pub shift: i64,
    /// panic arm of the to-state converters: feed one sample of this (wrong) unit
    pub wrong_unit: Option<(i8, i8)>,
}
static HEADROOM: Headroom = Headroom::new();
pub const KINDS: [Kind; 5] = [Kind::Integral, Kind::Derivative, Kind::AccelerationToState, Kind::VelocityToState, Kind::PositionToState];

fn params(kind: Kind, unit: (i8, i8)) -> Params {
    Params { k: [0.0; 3], x: 0.0, cmd_kind: 0, window: 1, unit: required_unit(kind).unwrap_or(unit) }
}
fn run_real(kind: Kind, unit: (i8, i8), events: &[Ev], times: &[i64]) -> (Vec<Obs>, Vec<Option<Unit>>) {
    let mut sut = build(kind, &params(kind, unit));
    let mut outs = Vec::new();
    let mut units = Vec::new();
    for (i, ev) in events.iter().enumerate() {
        (sut.feed)(ev, times[i]);
        let _ = (sut.update)();
        outs.push((sut.get)());
        units.push((sut.out_unit)());
    }
    (outs, units)
}

/// Reference value(s) after each event: None = must not be present.
fn reference(kind: Kind, events: &[Ev], times: &[i64]) -> Vec<Option<Vec<R>>> {
    let mut out = Vec::with_capacity(events.len());
    // run state
    let mut n = 0usize; // present samples in the current run
    let mut prev: Option<(i64, R)> = None;
    let mut acc1 = R::ZERO; // integral / velocity (acc->state) / position (vel->state) / velocity (pos->state)
    let mut acc2 = R::ZERO; // position (acc->state)
    let mut last: Option<Vec<R>> = None;
    let resets_on_absent = matches!(kind, Kind::Integral | Kind::Derivative);
    for (i, ev) in events.iter().enumerate() {
        match ev {
            Ev::E(_) => {
                n = 0;
                prev = None;
                last = None;
            }
            Ev::A => {
                if resets_on_absent {
                    n = 0;
                    prev = None;
                    last = None;
                }
            }
            Ev::P(x, _) => {
                let x = R::exact(*x);
                n += 1;
                if let Some((pt, px)) = prev {
                    let dt = R::secs(times[i] - pt);
                    match kind {
                        Kind::Integral => {
                            let add = (dt * (px + x)) / R::c(2.0);
                            acc1 = if n == 2 { add } else { add + acc1 };
                            last = Some(vec![acc1]);
                        }
                        Kind::Derivative => {
                            last = Some(vec![(x - px) / dt]);
                        }
                        Kind::AccelerationToState => {
                            let vel_add = ((px + x) / R::c(2.0)) * dt;
                            if n == 2 {
                                acc1 = vel_add;
                                last = None;
                            } else {
                                let new_vel = acc1 + vel_add;
                                let pos_add = ((acc1 + new_vel) / R::c(2.0)) * dt;
                                acc2 = if n == 3 { pos_add } else { acc2 + pos_add };
                                acc1 = new_vel;
                                last = Some(vec![acc2, acc1, x]);
                            }
                        }
                        Kind::VelocityToState => {
                            let a = (x - px) / dt;
                            let pos_add = ((px + x) / R::c(2.0)) * dt;
                            acc1 = if n == 2 { pos_add } else { acc1 + pos_add };
                            last = Some(vec![acc1, x, a]);
                        }
                        Kind::PositionToState => {
                            let new_vel = (x - px) / dt;
                            if n == 2 {
                                last = None;
                            } else {
                                last = Some(vec![x, new_vel, (new_vel - acc1) / dt]);
                            }
                            acc1 = new_vel;
                        }
                        _ => unreachable!(),
                    }
                } else {
                    last = None;
                }
                prev = Some((times[i], x));
            }
        }
        out.push(last.clone());
    }
    out
}

pub fn check(s: &Scenario) -> CheckResult {
    let kind = s.kind;
    let kname = format!("{:?}", kind);
    // ---- panic arm ----
    if let Some(w) = s.wrong_unit {
        let req = required_unit(kind).expect("panic arm only for to-state converters");
        let mut p = params(kind, req);
        p.unit = w;
        let r = catch(|| {
            // build with the wrong unit by bypassing `params`' override
            let mut sut = build(kind, &p);
            (sut.feed)(&Ev::P(1.5, 1), 10);
            let _ = (sut.update)();
            (sut.feed)(&Ev::P(2.5, 1), 20);
            let _ = (sut.update)();
        });
        if w == req {
            ensure!(r.is_ok(), format!("C10/{}/panic-on-correct-unit", kname), "{} panicked on correctly dimensioned input: {:?}", kname, r);
        } else {
            ensure!(r.is_err(), format!("C10/{}/no-panic-on-wrong-unit", kname), "{} accepted input of unit {:?} (requires {:?}) with dimension checking enabled", kname, w, req);
        }
        return Ok(CaseInfo::new(w != req, hash_of(&(kind, w))).class("unit panic arm"));
    }
    let times = times_of(s.t0, &s.events);
    let (outs, units) = run_real(kind, s.unit, &s.events, &times);
    let refs = reference(kind, &s.events, &times);
    let in_unit = params(kind, s.unit).unit;
    let mut run = 0usize;
    let mut best_run = 0usize;
    let mut unequal_dt = false;
    let mut noncollinear = false;
    let mut hist: Vec<(i64, f32)> = Vec::new();
    for (i, ev) in s.events.iter().enumerate() {
        let resets = matches!(ev, Ev::E(_)) || (*ev == Ev::A && matches!(kind, Kind::Integral | Kind::Derivative));
        if resets {
            run = 0;
            hist.clear();
        }
        if let Ev::P(x, _) = ev {
            run += 1;
            best_run = best_run.max(run);
            hist.push((times[i], *x));
            if hist.len() >= 3 {
                let h = &hist[hist.len() - 3..];
                let (d1, d2) = (h[1].0 - h[0].0, h[2].0 - h[1].0);
                if d1 != d2 {
                    unequal_dt = true;
                }
                let s1 = (h[1].1 as f64 - h[0].1 as f64) / d1 as f64;
                let s2 = (h[2].1 as f64 - h[1].1 as f64) / d2 as f64;
                if (s1 - s2).abs() > 1e-9 * (s1.abs() + s2.abs() + 1e-30) {
                    noncollinear = true;
                }
            }
        }
        match (&refs[i], &outs[i]) {
            (None, Obs::Some(t, v)) => {
                return Err(Violation::new(format!("C10/{}/present-too-early", kname), format!("event {} ({:?}, sample #{} of its run): output {:?} at {} although not enough samples exist (history {:?})", i, ev, run, v, t, &s.events[..=i])));
            }
            (None, o) => {
                // "absent until enough samples exist": after a *present* sample that is not yet enough, the output is absent -
                // in particular not an error left over from before the run started (the stale-error defect fixed in bbbc9b8)
                if matches!(ev, Ev::P(..)) {
                    ensure!(matches!(o, Obs::None), format!("C10/{}/not-absent", kname), "event {} ({:?}, sample #{} of its run): not enough samples exist yet, so get() must be absent, but it is {:?} (history {:?})", i, ev, run, o, &s.events[..=i]);
                }
            }
            (Some(want), Obs::Some(t, v)) => {
                // the newest *present* sample's time
                let newest = hist.last().map(|h| h.0).unwrap_or(times[i]);
                ensure!(*t == newest, format!("C10/{}/time", kname), "event {}: output stamped {} but the newest sample is stamped {}", i, t, newest);
                ensure!(v.len() == want.len(), format!("C10/{}/shape", kname), "output has {} components", v.len());
                for (c, (w, g)) in want.iter().zip(v).enumerate() {
                    if !w.is_finite() {
                        continue;
                    }
                    HEADROOM.observe(w.ratio(*g));
                    ensure!(
                        w.admits(*g, 4.0, 0.0),
                        format!("C10/{}/value", kname),
                        "event {} (sample #{} of its run), component {}: output {:e}, reference {:e} (allowed deviation {:e}); history {:?}",
                        i, run, c, g, w.v, 4.0 * w.e, &s.events[..=i]
                    );
                }
                if let Some(u) = units[i] {
                    let want_u = match kind {
                        Kind::Integral => Unit::new(in_unit.0, in_unit.1 + 1),
                        Kind::Derivative => Unit::new(in_unit.0, in_unit.1 - 1),
                        _ => unreachable!(),
                    };
                    ensure!(u == want_u, format!("C10/{}/unit", kname), "event {}: output unit {:?} for input unit {:?}", i, u, in_unit);
                }
            }
            (Some(_), o) => {
                // an absent-ignoring converter keeps its last value across absent events; the reference
                // carries it too, so a present reference always demands a present output
                return Err(Violation::new(format!("C10/{}/missing", kname), format!("event {} ({:?}, sample #{} of its run): enough samples exist but get() = {:?} (history {:?})", i, ev, run, o, &s.events[..=i])));
            }
        }
    }
    // exact time-shift invariance
    let shift = if s.t0 > 0 { -s.shift.abs() } else { s.shift.abs() };
    let times2: Vec<i64> = times.iter().map(|t| t + shift).collect();
    let (outs2, _) = run_real(kind, s.unit, &s.events, &times2);
    for i in 0..outs.len() {
        ensure!(outs2[i].same(&outs[i].shifted(shift)), format!("C10/{}/time-shift", kname), "event {}: shifting all timestamps by {} changes the output from {:?} to {:?}", i, shift, outs[i], outs2[i]);
    }
    let kinds: Vec<u8> = s.events.iter().map(|e| e.kind_code()).collect();
    let nontrivial = best_run >= 3 && unequal_dt && noncollinear;
    Ok(CaseInfo::new(nontrivial, hash_of(&(kind, kinds, s.unit, times.last().copied(), s.events.iter().filter_map(|e| if let Ev::P(x, _) = e { Some(x.to_bits()) } else { None }).collect::<Vec<_>>())))
        .class_if(best_run >= 3, "run of >= 3 samples")
        .class_if(s.events.iter().any(|e| !e.is_present()), "interleaved absent/error"))
}

pub struct C10;
impl Property for C10 {
    const ID: &'static str = "C10";
    const RULE: &'static str = "random histories of 0..64 events (present sample with strictly increasing time, dt log-uniform 1 us..3 h; absent; Err; weights 8:1:1:0.5) for IntegralStream and DerivativeStream over every input unit of the 7x7 grid and the three to-state converters with their required unit; exhaustive panic arm: each to-state converter x all 49 units (must panic iff the unit is wrong). Oracle: f64 reference (trapezoid sums / difference quotients applied once or twice per run since the last reset, absent-ness for the first 1 or 2 samples) with a running f32 error bound (|out - ref| <= 4e), output time == newest sample, output unit == input unit x or / seconds, exact time-shift invariance. Non-trivial = a run of >= 3 present samples with unequal dt and non-collinear values; distinct = (stream, event kinds, unit, values).";
    type Scenario = Scenario;
    fn strategy(_tier: Tier) -> BoxedStrategy<Scenario> {
        (proptest::sample::select(KINDS.to_vec()), (-3i8..=3, -3i8..=3), t0_strategy(), proptest::collection::vec(ev_strategy([16, 2, 1, 1], dt_pos()), 0..=64), -1_000_000_000_000_000i64..1_000_000_000_000_000)
            .prop_map(|(kind, unit, t0, events, shift)| Scenario { kind, unit, t0, events, shift, wrong_unit: None })
            .boxed()
    }
    fn cases(tier: Tier) -> u32 {
        tier.pick(30_000, 150_000)
    }
    fn exhaustive(_tier: Tier, sink: &mut dyn FnMut(Scenario)) -> Vec<String> {
        let mut n = 0;
        for kind in [Kind::AccelerationToState, Kind::VelocityToState, Kind::PositionToState] {
            for m in -3i8..=3 {
                for sx in -3i8..=3 {
                    sink(Scenario { kind, unit: (0, 0), t0: 0, events: vec![], shift: 0, wrong_unit: Some((m, sx)) });
                    n += 1;
                }
            }
        }
        vec![format!("3 to-state converters x 49 input units, panic iff wrong ({} cases)", n)]
    }
    fn check(s: &Scenario) -> CheckResult {
        check(s)
    }
    fn valid(s: &Scenario) -> bool {
        KINDS.contains(&s.kind) && dom::grid(s.unit) && dom::t0_span(s.t0) && s.shift.unsigned_abs() <= 1_000_000_000_000_000 && s.events.len() <= 64 && (s.wrong_unit.is_none() || (required_unit(s.kind).is_some() && dom::grid(s.wrong_unit.unwrap())))
            && s.events.iter().all(|e| match e {
                Ev::P(v, dt) => dom::moderate(*v) && dom::dt_pos(*dt),
                Ev::A => true,
                Ev::E(c) => *c <= 2,
            })
    }
    fn extra_coverage() -> std::collections::BTreeMap<String, serde_json::Value> {
        let mut m = std::collections::BTreeMap::new();
        m.insert("max_observed_error_over_bound".into(), serde_json::json!(HEADROOM.get()));
        m.insert("tolerance".into(), "|out - reference| <= 4 x running f32 error bound of the same data flow".into());
        m
    }
    fn assumptions() -> Vec<String> {
        vec!["reset events: absent and error for integral/derivative, error only for the to-state converters (which ignore absent samples)".into(), "what get() returns right after an error or absent *event* is C05's subject; after a present sample that is not yet enough, exactly 'absent' is asserted here".into()]
    }
}
