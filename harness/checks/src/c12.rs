//! C12 — EWMA and moving average are time-weighted convex averages and never panic.
use crate::common::*;
use crate::ensure;
use crate::rnum::{Headroom, R};
use crate::sut::*;
use proptest::prelude::*;
use serde::{Deserialize, Serialize};
use std::collections::VecDeque;

#[derive(Clone, Debug, Serialize, Deserialize)]
pub struct Scenario {
    pub smoothing: f32,
    pub window: i64,
    pub unit: (i8, i8),
    pub t0: i64,
    /// present samples carry dt >= 0 (repeated timestamps allowed)
    pub events: Vec<Ev>,
}
static HEADROOM: Headroom = Headroom::new();

fn run(kind: Kind, s: &Scenario, times: &[i64]) -> Result<Vec<Obs>, (usize, String)> {
    let p = Params { k: [0.0; 3], x: s.smoothing, cmd_kind: 0, window: s.window, unit: s.unit };
    let mut sut = build(kind, &p);
    let mut outs = Vec::new();
    for (i, ev) in s.events.iter().enumerate() {
        (sut.feed)(ev, times[i]);
        match catch(|| {
            let _ = (sut.update)();
            (sut.get)()
        }) {
            Ok(o) => {
                // the Quantity variants hand back what they were fed: same unit as the samples
                if let (Obs::Some(..), Some(u)) = (&o, (sut.out_unit)()) {
                    if u != p.unit() {
                        return Err((i, format!("UNIT: the output carries unit {:?}, the samples carry {:?}", u, p.unit())));
                    }
                }
                outs.push(o)
            }
            Err(m) => return Err((i, m)),
        }
    }
    Ok(outs)
}

pub fn check(s: &Scenario) -> CheckResult {
    assert!(s.window > 0 && (0.0..=1.0).contains(&s.smoothing));
    let times = times_of(s.t0, &s.events);
    let mut all: Vec<Vec<Obs>> = Vec::new();
    for kind in [Kind::EwmaF32, Kind::EwmaQuantity, Kind::MovingAverageF32, Kind::MovingAverageQuantity] {
        match run(kind, s, &times) {
            Ok(o) => all.push(o),
            Err((i, m)) if m.starts_with("UNIT: ") => return Err(Violation::new(format!("C12/{:?}/unit", kind), format!("{:?} at event {} ({:?}) of history {:?}: {}", kind, i, s.events[i], &s.events[..=i], &m[6..]))),
            Err((i, m)) => return Err(Violation::new(format!("C12/{:?}/panic", kind), format!("{:?} panicked at event {} ({:?}) of history {:?} (window {} ns, smoothing {}): {}", kind, i, s.events[i], &s.events[..=i], s.window, s.smoothing, m))),
        }
    }
    let (ewma_f, ewma_q, ma_f, ma_q) = (&all[0], &all[1], &all[2], &all[3]);
    for i in 0..s.events.len() {
        ensure!(ewma_f[i].same(&ewma_q[i]), "C12/ewma-variants-differ", "event {}: f32 EWMA gives {:?}, Quantity EWMA gives {:?}", i, ewma_f[i], ewma_q[i]);
        ensure!(ma_f[i].same(&ma_q[i]), "C12/ma-variants-differ", "event {}: f32 moving average gives {:?}, Quantity moving average gives {:?}", i, ma_f[i], ma_q[i]);
    }
    // ---------------- references ----------------
    let sm = R::exact(s.smoothing);
    let mut ewma: Option<(i64, R)> = None;
    let mut ewma_min_max: Option<(f64, f64)> = None;
    let mut ewma_first = true;
    let mut win: VecDeque<(i64, f32)> = VecDeque::new();
    let mut ma_first = true;
    let wsecs = R::secs(s.window);
    let mut repeated_ts = false;
    let mut three_in_window_unequal = false;
    let mut window_lt_step = false;
    let mut last_t: Option<i64> = None;
    for (i, ev) in s.events.iter().enumerate() {
        match ev {
            Ev::E(_) => {
                ewma = None;
                ewma_min_max = None;
                ewma_first = true;
                win.clear();
                ma_first = true;
                last_t = None;
            }
            Ev::A => {
                // no new sample: the samples in the window, and so the averages, are what they were
                if i > 0 && matches!(s.events[i - 1], Ev::P(..) | Ev::A) {
                    for (name, outs) in [("moving average", ma_f), ("EWMA", ewma_f)] {
                        if matches!(outs[i - 1], Obs::Some(..)) {
                            ensure!(outs[i].same(&outs[i - 1]), "C12/absent-holds", "event {} is an absent input: the {} output went from {:?} to {:?} although no sample arrived; history {:?}", i, name, outs[i - 1], outs[i], &s.events[..=i]);
                        }
                    }
                }
            }
            Ev::P(x, _) => {
                let now = times[i];
                if let Some(l) = last_t {
                    if l == now {
                        repeated_ts = true;
                    }
                    if (now as i128) - (l as i128) > s.window as i128 {
                        window_lt_step = true;
                    }
                }
                last_t = Some(now);
                // ---- EWMA ----
                let xr = R::exact(*x);
                let (mn, mx) = ewma_min_max.map(|(a, b)| (a.min(*x as f64), b.max(*x as f64))).unwrap_or((*x as f64, *x as f64));
                ewma_min_max = Some((mn, mx));
                let want = match ewma {
                    None => xr,
                    Some((pt, prev)) => {
                        let dt = R::secs(now - pt);
                        let base = R::c(1.0) - sm;
                        let pw = if base.v <= 0.0 { R::c(if now == pt { 1.0 } else { 0.0 }) } else if base.v >= 1.0 { R::c(1.0) } else { base.powf(dt) };
                        let lambda = R::c(1.0) - pw;
                        prev * (R::c(1.0) - lambda) + xr * lambda
                    }
                };
                ewma = Some((now, want));
                match &ewma_f[i] {
                    Obs::Some(t, v) => {
                        ensure!(*t == now, "C12/ewma-time", "event {}: EWMA output stamped {} but the sample is stamped {}", i, t, now);
                        if ewma_first {
                            ensure!(same_f32(v[0], *x), "C12/ewma-first-sample", "event {}: the first sample {:e} after a start/reset is returned as {:e}", i, x, v[0]);
                        }
                        HEADROOM.observe(want.ratio(v[0]));
                        ensure!(want.admits(v[0], 4.0, 0.0), "C12/ewma-value", "event {}: EWMA output {:e}, reference prev*(1-L)+new*L = {:e} (allowed deviation {:e}); smoothing {} history {:?}", i, v[0], want.v, 4.0 * want.e, s.smoothing, &s.events[..=i]);
                        let slack = 4.0 * want.e;
                        ensure!((v[0] as f64) >= mn - slack && (v[0] as f64) <= mx + slack, "C12/ewma-not-convex", "event {}: EWMA output {:e} is outside the range [{:e}, {:e}] of the samples since the last reset", i, v[0], mn, mx);
                    }
                    o => return Err(Violation::new("C12/ewma-missing", format!("event {}: present sample but EWMA get() = {:?}", i, o))),
                }
                ewma_first = false;
                // ---- moving average ----
                win.push_back((now, *x));
                while win.front().map(|f| (f.0 as i128) <= now as i128 - s.window as i128).unwrap_or(false) {
                    win.pop_front();
                }
                let mut start: i128 = now as i128 - s.window as i128;
                let mut sum = R::ZERO;
                let mut wsum: i64 = 0;
                for &(t, val) in &win {
                    let w = (t as i128 - start) as i64;
                    assert!(w >= 0, "reference weights are non-negative");
                    wsum += w;
                    sum = sum + R::exact(val) * R::secs(w);
                    start = t as i128;
                }
                assert_eq!(wsum, s.window, "reference weights sum to the window");
                let want = sum / wsecs;
                if win.len() >= 3 {
                    let v: Vec<i64> = win.iter().map(|w| w.0).collect();
                    if v.windows(3).any(|w| w[1] - w[0] != w[2] - w[1]) {
                        three_in_window_unequal = true;
                    }
                }
                match &ma_f[i] {
                    Obs::Some(t, v) => {
                        ensure!(*t == now, "C12/ma-time", "event {}: moving-average output stamped {} but the sample is stamped {}", i, t, now);
                        HEADROOM.observe(want.ratio(v[0]));
                        ensure!(want.admits(v[0], 4.0, 0.0), "C12/ma-value", "event {}: moving average {:e}, time-weighted reference {:e} (allowed deviation {:e}); window {} ns, samples in window {:?}", i, v[0], want.v, 4.0 * want.e, s.window, win);
                        let mn = win.iter().map(|w| w.1 as f64).fold(f64::INFINITY, f64::min);
                        let mx = win.iter().map(|w| w.1 as f64).fold(f64::NEG_INFINITY, f64::max);
                        let slack = 4.0 * want.e;
                        ensure!((v[0] as f64) >= mn - slack && (v[0] as f64) <= mx + slack, "C12/ma-not-convex", "event {}: moving average {:e} is outside the range [{:e}, {:e}] of the samples in its window", i, v[0], mn, mx);
                        if ma_first {
                            ensure!(((v[0] as f64) - (*x as f64)).abs() <= 2.0 * ulp32(*x as f64), "C12/ma-first-sample", "event {}: the first sample {:e} after a start/reset is returned as {:e}", i, x, v[0]);
                        }
                    }
                    o => return Err(Violation::new("C12/ma-missing", format!("event {}: present sample but moving-average get() = {:?}", i, o))),
                }
                ma_first = false;
            }
        }
    }
    let kinds: Vec<u8> = s.events.iter().map(|e| e.kind_code()).collect();
    let nontrivial = three_in_window_unequal || repeated_ts || window_lt_step;
    Ok(CaseInfo::new(nontrivial, hash_of(&(kinds, s.window, s.smoothing.to_bits(), times.last().copied())))
        .class_if(three_in_window_unequal, ">= 3 samples in one window, unequal spacing")
        .class_if(repeated_ts, "repeated timestamp")
        .class_if(window_lt_step, "window shorter than one step")
        .class_if(s.smoothing == 0.0 || s.smoothing == 1.0, "smoothing at an end of [0,1]"))
}

pub struct C12;
impl Property for C12 {
    const ID: &'static str = "C12";
    const RULE: &'static str = "random histories of 0..64 events (present sample with non-decreasing timestamp: dt = 0 with probability 0.2 else log-uniform 1 ns..3 h; absent; Err), window log-uniform 1 ns..3 h, smoothing in [0,1] incl. both ends, moderate values; each history is run on the f32 and Quantity variants of both filters. Oracle: time-weighted window average (weights >= 0 summing exactly to the window, asserted on the i64 reference) and prev*(1-L)+new*L with L = 1-(1-s)^dt in f64 with a running f32 error bound (|out - ref| <= 4e), convexity (output within [min,max] of contributing samples +- bound), first sample returned unchanged, an absent input leaves both averages bit-identical, f32 == Quantity variant, no panic on any update. Non-trivial = >= 3 samples inside one window with unequal spacing, or a repeated timestamp, or a window shorter than one step; distinct = (event kinds, window, smoothing, end time).";
    type Scenario = Scenario;
    fn strategy(_tier: Tier) -> BoxedStrategy<Scenario> {
        let dt = prop_oneof![2 => Just(0i64), 6 => gen::log_ns(1, 10_800_000_000_000), 2 => gen::special_ns(1, 10_800_000_000_000)].boxed();
        let smoothing = prop_oneof![1 => Just(0.0f32), 1 => Just(1.0f32), 6 => 0.0f32..=1.0f32, 2 => (1u32..1000).prop_map(|x| x as f32 / 1000.0)];
        let value = |dt: BoxedStrategy<i64>| prop_oneof![3 => ev_strategy([10, 1, 1, 0], dt.clone()), 1 => (Just(2.5f32), dt).prop_map(|(v, dt)| Ev::P(v, dt))];
        (smoothing, prop_oneof![3 => gen::log_ns(1, 10_800_000_000_000), 1 => gen::special_ns(1, 10_800_000_000_000)], (-3i8..=3, -3i8..=3), t0_strategy(), proptest::collection::vec(value(dt), 0..=64), 0u8..12)
            .prop_map(|(smoothing, window, unit, t0, events, anchor)| {
                // anchor 0: the last sample lands 0..2 ns below i64::MAX (timestamps at the very top of the range)
                let span: i64 = events.iter().map(|e| if let Ev::P(_, dt) = e { *dt } else { 0 }).sum();
                let t0 = if anchor == 0 { i64::MAX - span - (window % 3) } else { t0 };
                Scenario { smoothing, window, unit, t0, events }
            })
            .boxed()
    }
    fn cases(tier: Tier) -> u32 {
        tier.pick(25_000, 150_000)
    }
    fn check(s: &Scenario) -> CheckResult {
        check(s)
    }
    fn valid(s: &Scenario) -> bool {
        (0.0..=1.0).contains(&s.smoothing) && (1..=10_800_000_000_000).contains(&s.window) && dom::grid(s.unit) && s.events.len() <= 64 && s.events.iter().all(|e| match e {
            Ev::P(v, dt) => dom::moderate(*v) && (0..=10_800_000_000_000).contains(dt),
            Ev::A => true,
            Ev::E(c) => *c <= 2,
        }) && s.events.iter().try_fold(s.t0, |t, e| t.checked_add(if let Ev::P(_, dt) = e { *dt } else { 0 })).is_some()
    }
    fn extra_coverage() -> std::collections::BTreeMap<String, serde_json::Value> {
        let mut m = std::collections::BTreeMap::new();
        m.insert("max_observed_error_over_bound".into(), serde_json::json!(HEADROOM.get()));
        m.insert("tolerance".into(), "|out - reference| <= 4 x running f32 error bound (powf: condition number of its inputs + 2 ulp for the library)".into());
        m
    }
    fn assumptions() -> Vec<String> {
        vec!["timestamps are non-decreasing; window > 0; smoothing in [0,1]".into(), "std's powf is accurate to 2 ulp".into()]
    }
}
