//! C15 — settable bookkeeping, following and history adapters map values and time exactly.
use crate::common::*;
use crate::ensure;
use crate::sut::{err_code, mk_err, Scripted, ScriptedClock, E};
use proptest::prelude::*;
use rrtk::*;
use serde::{Deserialize, Serialize};
use std::cell::{Cell, RefCell};
use std::rc::Rc;

#[derive(Clone, Copy, Debug, Serialize, Deserialize, PartialEq)]
pub enum GOut {
    Present(i64, i64),
    Absent,
    Err(u8),
}
#[derive(Clone, Copy, Debug, Serialize, Deserialize, PartialEq)]
pub enum Op {
    /// set on the failing settable: (value, succeeds?)
    Set(i64, bool),
    Follow(u8),
    StopFollowing,
    Update,
    /// update while impl_set fails
    UpdateFailing,
    /// the same four on the ConstantGetter
    CSet(i64),
    CFollow(u8),
    CStopFollowing,
    CUpdate,
    GetterOut(u8, GOut),
    ClockAdvance(i64),
    ClockError(bool),
    SetDelta(i64),
    SetTime(i64),
    HUpdate,
}
#[derive(Clone, Debug, Serialize, Deserialize)]
pub struct Scenario {
    /// history adapter constructor: 0 no delta, 1 start at zero, 2 custom start, 3 custom delta
    pub ctor: u8,
    pub ctor_arg: i64,
    pub clock0: i64,
    pub clock_err0: bool,
    pub ops: Vec<Op>,
}

struct FailSettable {
    data: SettableData<i64, E>,
    succeed: Rc<Cell<bool>>,
    received: Rc<RefCell<Vec<(i64, bool)>>>,
}
impl Settable<i64, E> for FailSettable {
    fn get_settable_data_ref(&self) -> &SettableData<i64, E> {
        &self.data
    }
    fn get_settable_data_mut(&mut self) -> &mut SettableData<i64, E> {
        &mut self.data
    }
    fn impl_set(&mut self, v: i64) -> NothingOrError<E> {
        let ok = self.succeed.get();
        self.received.borrow_mut().push((v, ok));
        if ok {
            Ok(())
        } else {
            Err(mk_err(77))
        }
    }
}
impl Updatable<E> for FailSettable {
    fn update(&mut self) -> NothingOrError<E> {
        self.update_following_data()
    }
}
/// A history whose value is the queried time itself (so the offset is observable), stamped with
/// garbage (so restamping is observable), with holes (absent) at multiples of 7.
struct EchoHistory {
    updates: Rc<Cell<u32>>,
}
impl History<i64, E> for EchoHistory {
    fn get(&self, time: Time) -> Option<Datum<i64>> {
        if time.0 % 7 == 0 {
            None
        } else {
            Some(Datum::new(Time(time.0 ^ 0x5555), time.0))
        }
    }
}
impl Updatable<E> for EchoHistory {
    fn update(&mut self) -> NothingOrError<E> {
        self.updates.set(self.updates.get() + 1);
        Ok(())
    }
}
type O = Result<Option<(i64, i64)>, i32>;
fn norm(o: Output<i64, E>) -> O {
    match o {
        Err(e) => Err(err_code(e)),
        Ok(None) => Ok(None),
        Ok(Some(d)) => Ok(Some((d.time.0, d.value))),
    }
}

pub fn check(s: &Scenario) -> CheckResult {
    let clock = rc_ref_cell_reference(ScriptedClock { cur: if s.clock_err0 { Err(mk_err(9)) } else { Ok(Time(s.clock0)) }, reads: Cell::new(0) });
    let getters: Vec<Reference<Scripted<i64>>> = (0..2).map(|_| rc_ref_cell_reference(Scripted::<i64>::new())).collect();
    let (succeed, received) = (Rc::new(Cell::new(true)), Rc::new(RefCell::new(Vec::new())));
    let mut fs = FailSettable { data: SettableData::new(), succeed: succeed.clone(), received: received.clone() };
    let mut cg = ConstantGetter::new(clock.clone(), -1i64);
    let hupdates = Rc::new(Cell::new(0));
    let mut hist = EchoHistory { updates: hupdates.clone() };
    let tg = TimeGetterFromGetter::new(getters[0].clone());
    // ---- model ----
    let mut now = s.clock0;
    let mut clock_err = s.clock_err0;
    let mut gout = [GOut::Absent, GOut::Absent];
    let mut last_request: Option<i64> = None;
    let mut following: Option<usize> = None;
    let mut want_received: Vec<(i64, bool)> = Vec::new();
    let mut c_value = -1i64;
    let mut c_last: Option<i64> = None;
    let mut c_following: Option<usize> = None;
    // ---- history adapter construction ----
    let built: Result<GetterFromHistory<'_, i64, ScriptedClock, E>, Error<E>> = match s.ctor % 4 {
        0 => Ok(GetterFromHistory::new_no_delta(&mut hist, clock.clone())),
        1 => GetterFromHistory::new_start_at_zero(&mut hist, clock.clone()),
        2 => GetterFromHistory::new_custom_start(&mut hist, clock.clone(), Time(s.ctor_arg)),
        _ => Ok(GetterFromHistory::new_custom_delta(&mut hist, clock.clone(), Time(s.ctor_arg))),
    };
    let mut offset: i64 = match s.ctor % 4 {
        0 => 0,
        1 => -now,
        2 => s.ctor_arg - now,
        _ => s.ctor_arg,
    };
    let needs_clock = matches!(s.ctor % 4, 1 | 2);
    let mut h = match built {
        Ok(h) => {
            ensure!(!(needs_clock && clock_err), "C15/history/ctor-ignored-clock-error", "constructor {} succeeded although the clock returned an error", s.ctor % 4);
            Some(h)
        }
        Err(e) => {
            ensure!(needs_clock && clock_err && err_code(e) == 9, "C15/history/ctor-failed", "constructor {} failed with {:?}", s.ctor % 4, e);
            None
        }
    };
    let mut failed_after_success = false;
    let mut refollow = false;
    let mut set_time_after_move = false;
    let mut moved = false;
    let mut follow_count = 0;
    // the crate's own Settable implementors keep the same bookkeeping (their `set` may be overridden): a CommandPID and a Terminal
    let pid_input = rc_ref_cell_reference(Scripted::<State>::new());
    let mut pid = rrtk::streams::control::CommandPID::new(pid_input.clone(), Command::new(PositionDerivative::Position, 0.0), PositionDerivativeDependentPIDKValues::new(PIDKValues::new(1.0, 0.0, 0.0), PIDKValues::new(1.0, 0.0, 0.0), PIDKValues::new(1.0, 0.0, 0.0)));
    ensure!(pid.get_last_request().is_none(), "C15/command-pid/last-request", "a new CommandPID reports the last request {:?}", pid.get_last_request());
    // two terminals, one connected to nothing and one connected to a third, mirror the settable's set/follow/stop/update ops on
    // both of their settable halves (Datum<State> and Datum<Command>); the followed getters replay the scripted getters' outputs
    let t_state_getters: Vec<Reference<Scripted<Datum<State>>>> = (0..2).map(|_| rc_ref_cell_reference(Scripted::<Datum<State>>::new())).collect();
    let t_command_getters: Vec<Reference<Scripted<Datum<Command>>>> = (0..2).map(|_| rc_ref_cell_reference(Scripted::<Datum<Command>>::new())).collect();
    let (t_free, t_linked, t_partner) = (Terminal::<E>::new(), Terminal::<E>::new(), Terminal::<E>::new());
    connect(&t_linked, &t_partner);
    let terminals = [("unconnected", &t_free), ("connected", &t_linked)];
    let t_state = |v: i64, t: i64| Datum::new(Time(t), State::new_raw((v % 1000) as f32, (v % 7) as f32, (v % 13) as f32));
    let t_command = |v: i64, t: i64| Datum::new(Time(t), Command::new([PositionDerivative::Position, PositionDerivative::Velocity, PositionDerivative::Acceleration][(v.unsigned_abs() % 3) as usize], (v % 1000) as f32));
    // per terminal, as where one channel errs the crate may or may not have forwarded the other one (the order is not specified)
    let mut t_last: [(Option<Datum<State>>, Option<Datum<Command>>); 2] = [(None, None); 2];
    let mut t_following: Option<usize> = None;
    // the CommandPID follows a command getter replaying getter k while its own input replays getter 1
    let pid_command_getters: Vec<Reference<Scripted<Command>>> = (0..2).map(|_| rc_ref_cell_reference(Scripted::<Command>::new())).collect();
    let pid_command = |v: i64| Command::new([PositionDerivative::Position, PositionDerivative::Velocity, PositionDerivative::Acceleration][(v.unsigned_abs() % 3) as usize], (v % 1000) as f32);
    let mut pid_last: Option<Command> = None;
    let mut pid_following: Option<usize> = None;
    for (i, op) in s.ops.iter().enumerate() {
        match *op {
            Op::Set(v, _) => {
                for (_, t) in terminals {
                    let r1 = t.borrow_mut().set(t_state(v, v ^ 5));
                    let r2 = t.borrow_mut().set(t_command(v, v ^ 9));
                    ensure!(r1.is_ok() && r2.is_ok(), "C15/terminal/set-failed", "op {}: Terminal::set returned {:?} / {:?}", i, r1, r2);
                }
                t_last = [(Some(t_state(v, v ^ 5)), Some(t_command(v, v ^ 9))); 2];
            }
            Op::Follow(k) => {
                let k = k as usize % 2;
                for (_, t) in terminals {
                    <Terminal<E> as Settable<Datum<State>, E>>::follow(&mut t.borrow_mut(), to_dyn!(Getter<Datum<State>, E>, t_state_getters[k].clone()));
                    <Terminal<E> as Settable<Datum<Command>, E>>::follow(&mut t.borrow_mut(), to_dyn!(Getter<Datum<Command>, E>, t_command_getters[k].clone()));
                }
                t_following = Some(k);
                pid.follow(to_dyn!(Getter<Command, E>, pid_command_getters[k].clone()));
                pid_following = Some(k);
            }
            Op::StopFollowing => {
                for (_, t) in terminals {
                    <Terminal<E> as Settable<Datum<State>, E>>::stop_following(&mut t.borrow_mut());
                    <Terminal<E> as Settable<Datum<Command>, E>>::stop_following(&mut t.borrow_mut());
                }
                t_following = None;
                pid.stop_following();
                pid_following = None;
            }
            Op::Update | Op::UpdateFailing => {
                // the command channel replays getter k, the state channel getter 1-k: a present value must be forwarded and an
                // error returned whatever the other channel does; which error wins and whether the other channel was still
                // polled when one errs is left open
                let (c_out, s_out) = match t_following {
                    Some(k) => (gout[k], gout[1 - k]),
                    None => (GOut::Absent, GOut::Absent),
                };
                let errs: Vec<NothingOrError<E>> = [c_out, s_out].iter().filter_map(|o| if let GOut::Err(e) = o { Some(Err(mk_err(*e))) } else { None }).collect();
                for (ti, (name, t)) in terminals.iter().enumerate() {
                    let r = t.borrow_mut().update();
                    ensure!(if errs.is_empty() { r.is_ok() } else { errs.contains(&r) }, "C15/terminal/update-return", "op {}: the {} terminal's update returned {:?}; its followed command getter returns {:?} and its followed state getter {:?}", i, name, r, c_out, s_out);
                    let got_state = <Terminal<E> as Settable<Datum<State>, E>>::get_last_request(&t.borrow());
                    let got_command = <Terminal<E> as Settable<Datum<Command>, E>>::get_last_request(&t.borrow());
                    if let GOut::Present(v, tm) = s_out {
                        if errs.is_empty() || got_state == Some(t_state(v, tm)) {
                            t_last[ti].0 = Some(t_state(v, tm));
                        }
                    }
                    if let GOut::Present(v, tm) = c_out {
                        if errs.is_empty() || got_command == Some(t_command(v, tm)) {
                            t_last[ti].1 = Some(t_command(v, tm));
                        }
                    }
                }
                // the CommandPID: followed command getter k, own input getter 1
                let f_out = pid_following.map(|k| gout[k]).unwrap_or(GOut::Absent);
                let perrs: Vec<NothingOrError<E>> = [f_out, gout[1]].iter().filter_map(|o| if let GOut::Err(e) = o { Some(Err(mk_err(*e))) } else { None }).collect();
                let r = pid.update();
                ensure!(if perrs.is_empty() { r.is_ok() } else { perrs.contains(&r) }, "C15/command-pid/update-return", "op {}: CommandPID::update returned {:?}; its followed command getter returns {:?} and its input {:?}", i, r, f_out, gout[1]);
                if let GOut::Present(v, _) = f_out {
                    if perrs.is_empty() || pid.get_last_request() == Some(pid_command(v)) {
                        pid_last = Some(pid_command(v));
                    }
                }
            }
            Op::GetterOut(k, o) => {
                let k = k as usize % 2;
                // the outer stamp (of the getter's datum) is dropped by following; the inner datum is what gets set
                pid_command_getters[k].borrow_mut().cur = match o {
                    GOut::Present(v, t) => Ok(Some(Datum::new(Time(t), pid_command(v)))),
                    GOut::Absent => Ok(None),
                    GOut::Err(e) => Err(mk_err(e)),
                };
                if k == 1 {
                    pid_input.borrow_mut().cur = match o {
                        GOut::Present(v, t) => Ok(Some(Datum::new(Time(t), State::new_raw((v % 1000) as f32, (v % 7) as f32, (v % 13) as f32)))),
                        GOut::Absent => Ok(None),
                        GOut::Err(e) => Err(mk_err(e)),
                    };
                }
                // the state channel of the terminals follows the *other* getter
                t_state_getters[1 - k].borrow_mut().cur = match o {
                    GOut::Present(v, t) => Ok(Some(Datum::new(Time(t ^ 0x33), t_state(v, t)))),
                    GOut::Absent => Ok(None),
                    GOut::Err(e) => Err(mk_err(e)),
                };
                t_command_getters[k].borrow_mut().cur = match o {
                    GOut::Present(v, t) => Ok(Some(Datum::new(Time(t ^ 0x55), t_command(v, t)))),
                    GOut::Absent => Ok(None),
                    GOut::Err(e) => Err(mk_err(e)),
                };
            }
            _ => {}
        }
        for (ti, (name, t)) in terminals.iter().enumerate() {
            let got_state = <Terminal<E> as Settable<Datum<State>, E>>::get_last_request(&t.borrow());
            let got = (got_state, <Terminal<E> as Settable<Datum<Command>, E>>::get_last_request(&t.borrow()));
            ensure!(got == t_last[ti], "C15/terminal/last-request", "op {} ({:?}): the {} terminal's last requests are {:?}; the most recent successfully set state and command are {:?} (following {:?}: command channel getter k, state channel getter 1-k; getter outputs {:?})", i, op, name, got, t_last[ti], t_following, gout);
        }
        if let Op::Set(v, _) | Op::CSet(v) = *op {
            // the first sets repeat the command the controller was built with: still a successful set with that argument
            let cmd = if i < 2 { Command::new(PositionDerivative::Position, 0.0) } else { Command::new([PositionDerivative::Position, PositionDerivative::Velocity, PositionDerivative::Acceleration][(v.unsigned_abs() % 3) as usize], (v % 1000) as f32) };
            let r = pid.set(cmd);
            ensure!(r.is_ok() && pid.get_last_request() == Some(cmd), "C15/command-pid/last-request", "op {}: CommandPID::set({:?}) returned {:?}; get_last_request() = {:?}", i, cmd, r, pid.get_last_request());
            pid_last = Some(cmd);
        }
        ensure!(pid.get_last_request() == pid_last, "C15/command-pid/last-request", "op {} ({:?}): CommandPID::get_last_request() = {:?}; the most recent successfully set or forwarded command is {:?} (following {:?}, getter outputs {:?})", i, op, pid.get_last_request(), pid_last, pid_following, gout);
        match *op {
            Op::Set(v, ok) => {
                succeed.set(ok);
                let r = fs.set(v);
                want_received.push((v, ok));
                if ok {
                    ensure!(r.is_ok(), "C15/settable/set-failed", "op {}: a successful set returned {:?}", i, r);
                    last_request = Some(v);
                } else {
                    ensure!(r == Err(mk_err(77)), "C15/settable/set-error-lost", "op {}: a failing set returned {:?}", i, r);
                    if last_request.is_some() {
                        failed_after_success = true;
                    }
                }
            }
            Op::Follow(k) => {
                let k = k as usize % 2;
                fs.follow(to_dyn!(Getter<i64, E>, getters[k].clone()));
                following = Some(k);
                follow_count += 1;
                if follow_count >= 2 {
                    refollow = true;
                }
            }
            Op::StopFollowing => {
                fs.stop_following();
                following = None;
            }
            Op::Update | Op::UpdateFailing => {
                let ok = *op == Op::Update;
                succeed.set(ok);
                let r = fs.update();
                let mut want = Ok(());
                if let Some(k) = following {
                    match gout[k] {
                        GOut::Present(v, _) => {
                            want_received.push((v, ok));
                            if ok {
                                last_request = Some(v);
                            } else {
                                want = Err(mk_err(77));
                                if last_request.is_some() {
                                    failed_after_success = true;
                                }
                            }
                        }
                        GOut::Absent => {}
                        GOut::Err(e) => want = Err(mk_err(e)),
                    }
                }
                ensure!(r == want, "C15/settable/update-return", "op {}: update returned {:?}, expected {:?} (following {:?}, getter outputs {:?})", i, r, want, following, gout);
            }
            Op::CSet(v) => {
                ensure!(cg.set(v).is_ok(), "C15/constant/set-failed", "op {}: ConstantGetter::set failed", i);
                c_value = v;
                c_last = Some(v);
            }
            Op::CFollow(k) => {
                let k = k as usize % 2;
                cg.follow(to_dyn!(Getter<i64, E>, getters[k].clone()));
                c_following = Some(k);
            }
            Op::CStopFollowing => {
                cg.stop_following();
                c_following = None;
            }
            Op::CUpdate => {
                let r = cg.update();
                let mut want = Ok(());
                if let Some(k) = c_following {
                    match gout[k] {
                        GOut::Present(v, _) => {
                            c_value = v;
                            c_last = Some(v);
                        }
                        GOut::Absent => {}
                        GOut::Err(e) => want = Err(mk_err(e)),
                    }
                }
                ensure!(r == want, "C15/constant/update-return", "op {}: ConstantGetter::update returned {:?}, expected {:?}", i, r, want);
            }
            Op::GetterOut(k, o) => {
                let k = k as usize % 2;
                gout[k] = o;
                getters[k].borrow_mut().cur = match o {
                    GOut::Present(v, t) => Ok(Some(Datum::new(Time(t), v))),
                    GOut::Absent => Ok(None),
                    GOut::Err(e) => Err(mk_err(e)),
                };
            }
            Op::ClockAdvance(d) => {
                now += d;
                moved = true;
                if !clock_err {
                    clock.borrow_mut().cur = Ok(Time(now));
                }
            }
            Op::ClockError(on) => {
                clock_err = on;
                clock.borrow_mut().cur = if on { Err(mk_err(9)) } else { Ok(Time(now)) };
            }
            Op::SetDelta(d) => {
                if let Some(h) = h.as_mut() {
                    h.set_delta(Time(d));
                    offset = d;
                }
            }
            Op::SetTime(t) => {
                if let Some(h) = h.as_mut() {
                    let r = h.set_time(Time(t));
                    if clock_err {
                        ensure!(r == Err(mk_err(9)), "C15/history/set-time-ignored-clock-error", "op {}: set_time returned {:?} while the clock errs", i, r);
                    } else {
                        ensure!(r.is_ok(), "C15/history/set-time-failed", "op {}: set_time returned {:?}", i, r);
                        offset = t - now;
                        if moved {
                            set_time_after_move = true;
                        }
                    }
                }
            }
            Op::HUpdate => {
                if let Some(h) = h.as_mut() {
                    let n0 = hupdates.get();
                    let r = h.update();
                    ensure!(r.is_ok() && hupdates.get() == n0 + 1, "C15/history/update", "op {}: adapter update returned {:?} and updated the history {} times", i, r, hupdates.get() - n0);
                }
            }
        }
        // ---------- observations after every op ----------
        ensure!(fs.get_last_request() == last_request, "C15/settable/last-request", "op {} ({:?}): get_last_request() = {:?}, the argument of the most recent successful set is {:?}", i, op, fs.get_last_request(), last_request);
        ensure!(*received.borrow() == want_received, "C15/settable/forwarded", "op {} ({:?}): the settable received {:?}, expected {:?}", i, op, received.borrow(), want_received);
        ensure!(cg.get_last_request() == c_last, "C15/constant/last-request", "op {}: ConstantGetter last request {:?}, expected {:?}", i, cg.get_last_request(), c_last);
        let want_c: O = if clock_err { Err(9) } else { Ok(Some((now, c_value))) };
        let got_c = norm(cg.get());
        ensure!(got_c == want_c, "C15/constant/get", "op {} ({:?}): ConstantGetter returns {:?}, expected the latest value at the clock's time {:?}", i, op, got_c, want_c);
        if let Some(h) = h.as_ref() {
            let want_h: O = if clock_err {
                Err(9)
            } else {
                let q = now + offset;
                if q % 7 == 0 {
                    Ok(None)
                } else {
                    Ok(Some((now, q)))
                }
            };
            let got_h = norm(h.get());
            ensure!(got_h == want_h, "C15/history/get", "op {} ({:?}): adapter returns {:?}; the history value at now+offset = {}+{} restamped with now is {:?}", i, op, got_h, now, offset, want_h);
        }
        let want_t: Result<i64, i32> = match gout[0] {
            GOut::Present(_, t) => Ok(t),
            GOut::Absent => Err(-1),
            GOut::Err(e) => Err(crate::sut::exp_code(e)),
        };
        let got_t = tg.get().map(|t| t.0).map_err(err_code);
        ensure!(got_t == want_t, "C15/time-getter", "op {}: TimeGetterFromGetter returns {:?}, expected {:?}", i, got_t, want_t);
    }
    let kinds: Vec<u8> = s.ops.iter().map(|o| match o { Op::Set(_, ok) => *ok as u8, Op::Follow(k) => 2 + k % 2, Op::StopFollowing => 4, Op::Update => 5, Op::UpdateFailing => 23, Op::CSet(_) => 6, Op::CFollow(k) => 7 + k % 2, Op::CStopFollowing => 9, Op::CUpdate => 10, Op::GetterOut(k, o) => 11 + (k % 2) * 3 + match o { GOut::Present(..) => 0, GOut::Absent => 1, GOut::Err(_) => 2 }, Op::ClockAdvance(_) => 17, Op::ClockError(b) => 18 + *b as u8, Op::SetDelta(_) => 20, Op::SetTime(_) => 21, Op::HUpdate => 22 }).collect();
    let nontrivial = failed_after_success || refollow || set_time_after_move;
    Ok(CaseInfo::new(nontrivial, hash_of(&(s.ctor % 4, kinds)))
        .class_if(failed_after_success, "failed set after a successful one")
        .class_if(refollow, "re-follow")
        .class_if(set_time_after_move, "set_time after the clock moved")
        .class_if(h.is_none(), "history constructor failed on an erroring clock"))
}

fn big() -> BoxedStrategy<i64> {
    prop_oneof![3 => -1000i64..1000, 2 => -(1i64 << 60)..(1i64 << 60), 1 => prop_oneof![Just(0i64), Just(7), Just(-7), Just(1 << 60), Just(-(1 << 60))]].boxed()
}
fn op() -> BoxedStrategy<Op> {
    let gout = prop_oneof![5 => (big(), big()).prop_map(|(v, t)| GOut::Present(v, t)), 2 => Just(GOut::Absent), 1 => (0u8..=2).prop_map(GOut::Err)];
    prop_oneof![
        4 => (big(), proptest::bool::weighted(0.7)).prop_map(|(v, ok)| Op::Set(v, ok)),
        2 => (0u8..2).prop_map(Op::Follow),
        1 => Just(Op::StopFollowing),
        4 => Just(Op::Update),
        1 => Just(Op::UpdateFailing),
        1 => big().prop_map(Op::CSet),
        1 => (0u8..2).prop_map(Op::CFollow),
        1 => Just(Op::CStopFollowing),
        2 => Just(Op::CUpdate),
        4 => (0u8..2, gout).prop_map(|(k, o)| Op::GetterOut(k, o)),
        3 => prop_oneof![-1000i64..1000, -(1i64 << 50)..(1i64 << 50)].prop_map(Op::ClockAdvance),
        1 => any::<bool>().prop_map(Op::ClockError),
        2 => big().prop_map(Op::SetDelta),
        2 => big().prop_map(Op::SetTime),
        1 => Just(Op::HUpdate),
    ]
    .boxed()
}

pub struct C15;
impl Property for C15 {
    const ID: &'static str = "C15";
    const RULE: &'static str = "random op histories of 0..40 operations over one world containing a settable whose impl_set fails on demand and records what it receives, a ConstantGetter, a CommandPID, an unconnected and a connected Terminal (both settable halves, mirroring the settable's ops), two scripted getters, a scripted clock that can err, a TimeGetterFromGetter, and a GetterFromHistory (each of the four constructors) over a history that returns the queried time as its value stamped with garbage, absent at multiples of 7: ops = set succeeding/failing, follow, stop_following, update, change of a followed getter's output (present/absent/error), clock advance, clock error on/off, set_delta, set_time, adapter update; i64 clock values and offsets within +-2^61. Oracle after every op: last request, exact sequence of forwarded values, update return values, ConstantGetter value/time, adapter value = history(now+offset) restamped now with the documented offset per constructor/set_delta/set_time (unchanged when the clock errs), time getter = getter timestamp / FromNone / error. Non-trivial = a failed set after a successful one, a re-follow, or a set_time after the clock moved; distinct = (constructor, op kind sequence).";
    type Scenario = Scenario;
    fn strategy(_tier: Tier) -> BoxedStrategy<Scenario> {
        (0u8..4, big(), big(), proptest::bool::weighted(0.1), gen::with_runs(proptest::collection::vec(op(), 0..=40).boxed(), 38, 40)).prop_map(|(ctor, ctor_arg, clock0, clock_err0, ops)| Scenario { ctor, ctor_arg, clock0, clock_err0, ops }).boxed()
    }
    fn cases(tier: Tier) -> u32 {
        tier.pick(50_000, 250_000)
    }
    fn check(s: &Scenario) -> CheckResult {
        check(s)
    }
    fn valid(s: &Scenario) -> bool {
        let big = |x: i64| x.unsigned_abs() <= 1u64 << 60;
        big(s.ctor_arg) && big(s.clock0) && s.ops.len() <= 40 && s.ops.iter().all(|o| match o {
            Op::Set(v, _) | Op::CSet(v) | Op::SetDelta(v) | Op::SetTime(v) => big(*v),
            Op::ClockAdvance(d) => d.unsigned_abs() <= 1u64 << 50,
            Op::GetterOut(_, GOut::Present(v, t)) => big(*v) && big(*t),
            Op::GetterOut(_, GOut::Err(e)) => *e <= 2,
            _ => true,
        })
    }
    fn assumptions() -> Vec<String> {
        vec!["clock values, offsets and set_time/set_delta arguments stay within +-2^61 and clock advances within +-2^50 per op, so no i64 sum overflows".into()]
    }
}
