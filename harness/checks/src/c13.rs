//! C13 — one-degree-of-freedom devices relay the newest command to every terminal, scaled.
use crate::c08::ratio_strategy;
use crate::common::*;
use crate::devs::*;
use crate::ensure;
use proptest::prelude::*;
use rrtk::*;
use serde::{Deserialize, Serialize};

/// where a command is issued: on a device terminal's own slot, or on the external terminal
/// connected to the head / tail of the chain or to a spare axle terminal
#[derive(Clone, Copy, Debug, Serialize, Deserialize, PartialEq)]
pub struct Issue {
    pub dev: u8,
    pub term: u8,
    pub external: bool,
    pub kind: u8,
    pub value: f32,
    /// relative age: timestamps are made globally distinct from this
    pub ts: u16,
}
#[derive(Clone, Debug, Serialize, Deserialize)]
pub struct Round {
    pub issues: Vec<Issue>,
    /// 0 in chain order, 1 reverse, 2 the permutation given by `perm`
    pub order: u8,
    pub perm: Vec<u8>,
}
#[derive(Clone, Debug, Serialize, Deserialize)]
pub struct Scenario {
    /// chain of one-DOF devices, or a single differential
    pub devs: Vec<DevSpec>,
    pub rounds: Vec<Round>,
    /// differential only: states to put on the terminals as well
    pub with_states: bool,
    /// offset of all command timestamps (so that i64::MIN itself and negative times occur)
    #[serde(default)]
    pub time_base: i64,
    /// bit (8*device + terminal) set: that free terminal is left unconnected (a spare / free-standing terminal, read and
    /// written directly) instead of getting an external partner
    #[serde(default)]
    pub free_mask: u64,
}

struct Node {
    dev: Dev,
    spec: DevSpec,
    /// external terminals per device terminal (None when the terminal is joined to a neighbour)
    ext: Vec<Option<Term>>,
}
fn in_idx(_spec: &DevSpec) -> usize {
    0
}
fn out_idx(spec: &DevSpec) -> usize {
    spec.terminals() - 1
}
/// factor mapping a command value from terminal `from` to terminal `to` of one device, as the exact
/// f32 operation sequence is not prescribed: (multiply_by, divide_by)
fn map_value(spec: &DevSpec, from: usize, to: usize, v: f64) -> f64 {
    if from == to {
        return v;
    }
    match spec {
        DevSpec::Invert => -v,
        DevSpec::Gear(_) | DevSpec::GearTeeth(_) => {
            let r = spec.ratio().unwrap() as f64;
            if from == 0 {
                v * r
            } else {
                v / r
            }
        }
        DevSpec::Axle(_) => v,
        DevSpec::Diff(_) => v,
    }
}
fn close(got: f32, want: f64, hops: usize) -> bool {
    if !want.is_finite() || want.abs() > 1.0e37 {
        return true; // the mapped value leaves the f32 range: nothing is claimed
    }
    if want == 0.0 {
        return got == 0.0;
    }
    ((got as f64) - want).abs() <= 2.0 * (hops.max(1) as f64) * ulp32(want) + 1e-44
}
fn cmd_bits_eq(a: Option<Datum<Command>>, b: Option<Datum<Command>>) -> bool {
    match (a, b) {
        (None, None) => true,
        (Some(x), Some(y)) => x.time == y.time && PositionDerivative::from(x.value) == PositionDerivative::from(y.value) && bits_eq(f32::from(x.value), f32::from(y.value)),
        _ => false,
    }
}

pub fn check(s: &Scenario) -> CheckResult {
    let mut arena = Arena::new();
    let m = s.devs.len();
    assert!(m >= 1);
    assert!(m == 1 || s.devs.iter().all(|d| d.terminals() >= 2 && !matches!(d, DevSpec::Diff(_))), "chains consist of one-DOF devices with >= 2 terminals");
    let is_diff = matches!(s.devs[0], DevSpec::Diff(_));
    let mut nodes: Vec<Node> = Vec::new();
    for spec in &s.devs {
        let dev = make_dev(&mut arena, spec);
        let n = spec.terminals();
        nodes.push(Node { dev, spec: spec.clone(), ext: vec![None; n] });
    }
    // join the chain; everything not joined gets an external terminal
    for k in 0..m {
        let n = nodes[k].spec.terminals();
        for j in 0..n {
            let joined_next = !is_diff && k + 1 < m && j == out_idx(&nodes[k].spec);
            let joined_prev = !is_diff && k > 0 && j == in_idx(&nodes[k].spec);
            if joined_next {
                let (a, b) = (nodes[k].dev.terms[j], nodes[k + 1].dev.terms[in_idx(&nodes[k + 1].spec)]);
                connect(a, b);
            } else if !joined_prev && s.free_mask >> ((8 * k + j) % 64) & 1 == 0 {
                let e = arena.terminal();
                connect(nodes[k].dev.terms[j], e);
                nodes[k].ext[j] = Some(e);
            }
        }
    }
    // the command currently held by each slot the test wrote to: (dev, term, external) -> (time, kind, value)
    let mut issued: std::collections::BTreeMap<(usize, usize, bool), (i64, u8, f32)> = std::collections::BTreeMap::new();
    let mut competing = false;
    let mut counter: i64 = 0;
    for (ri, round) in s.rounds.iter().enumerate() {
        // ---- issue commands with globally distinct timestamps ----
        for is in &round.issues {
            let k = is.dev as usize % m;
            let n = nodes[k].spec.terminals();
            if n == 0 {
                continue;
            }
            let j = is.term as usize % n;
            let time = s.time_base + (ri as i64) * 70_000_000 + (is.ts as i64) * 1000 + counter;
            counter += 1;
            let d = Datum::new(Time(time), Command::new(pd(is.kind), is.value));
            let ext = match (is.external, nodes[k].ext[j]) {
                (true, Some(e)) => {
                    set_command(e, d);
                    true
                }
                _ => {
                    set_command(nodes[k].dev.terms[j], d);
                    false
                }
            };
            issued.insert((k, j, ext), (time, is.kind % 3, is.value));
        }
        if is_diff && s.with_states {
            for j in 0..3 {
                set_state(nodes[0].dev.terms[j], Datum::new(Time(ri as i64), st([1.0 + j as f32, 0.5, -0.25])));
            }
        }
        // one-DOF chains: measured states travel over the same terminals as commands and must not touch them - in
        // particular not their timestamps; the states are stamped differently from every command (odd offsets above the range
        // the commands use), on external terminals and on unconnected device terminals alike
        if !is_diff && s.with_states {
            for k in 0..m {
                for j in 0..nodes[k].spec.terminals() {
                    if (ri + k + j) % 2 == 0 {
                        let t = Time(s.time_base.saturating_add(70_001 + 2 * (8 * ri as i64 + j as i64)));
                        let d = Datum::new(t, st([0.5 + j as f32, -0.25 * (k as f32 + 1.0), 0.125]));
                        match nodes[k].ext[j] {
                            Some(e) => set_state(e, d),
                            None => set_state(nodes[k].dev.terms[j], d),
                        }
                    }
                }
            }
        }
        // ---- update order ----
        let order: Vec<usize> = match round.order % 3 {
            0 => (0..m).collect(),
            1 => (0..m).rev().collect(),
            _ => {
                let mut idx: Vec<usize> = (0..m).collect();
                for (i, p) in round.perm.iter().enumerate() {
                    if m > 1 {
                        idx.swap(i % m, *p as usize % m);
                    }
                }
                idx
            }
        };
        for &k in &order {
            let n = nodes[k].spec.terminals();
            let before: Vec<Option<Datum<Command>>> = nodes[k].dev.terms.iter().map(|t| read_command(*t)).collect();
            let own_before: Vec<Option<Datum<Command>>> = nodes[k].dev.terms.iter().map(|t| own_command(*t)).collect();
            // "present at its terminals": a terminal's command read is the newer of its own slot and its partner's (external
            // terminal or joined neighbour) - checked against the slots, so that the relay oracle below does not rest on the
            // very read it uses
            for j in 0..n {
                let partner: Option<Datum<Command>> = match nodes[k].ext[j] {
                    Some(e) => own_command(e),
                    None => {
                        if !is_diff && k + 1 < m && j == out_idx(&nodes[k].spec) {
                            own_command(nodes[k + 1].dev.terms[in_idx(&nodes[k + 1].spec)])
                        } else if !is_diff && k > 0 && j == in_idx(&nodes[k].spec) {
                            own_command(nodes[k - 1].dev.terms[out_idx(&nodes[k - 1].spec)])
                        } else {
                            None
                        }
                    }
                };
                let ok = match (own_before[j], partner, before[j]) {
                    (None, None, None) => true,
                    (Some(a), None, Some(g)) | (None, Some(a), Some(g)) => g == a,
                    (Some(a), Some(b), Some(g)) => (g == a || g == b) && g.time >= a.time && g.time >= b.time,
                    _ => false,
                };
                ensure!(ok, format!("C13/{}/terminal-command-read", format!("{:?}", nodes[k].spec).split('(').next().unwrap()), "round {}: device {} terminal {} holds command {:?}, its partner {:?}; the command read there is {:?}, expected the newer of the two", ri, k, j, own_before[j], partner, before[j]);
            }
            let r = catch(|| (nodes[k].dev.update)());
            ensure!(matches!(r, Ok(Ok(()))), "C13/update-failed", "round {}: update of device {} returned {:?}", ri, k, r);
            let after: Vec<Option<Datum<Command>>> = nodes[k].dev.terms.iter().map(|t| read_command(*t)).collect();
            let dname = format!("{:?}", nodes[k].spec).split('(').next().unwrap().to_string();
            if is_diff {
                let own_after: Vec<Option<Datum<Command>>> = nodes[k].dev.terms.iter().map(|t| own_command(*t)).collect();
                for j in 0..n {
                    ensure!(cmd_bits_eq(before[j], after[j]) && cmd_bits_eq(own_before[j], own_after[j]), "C13/Diff/command-altered", "round {}: the differential altered the command of terminal {}: read {:?} -> {:?}, own slot {:?} -> {:?}", ri, j, before[j], after[j], own_before[j], own_after[j]);
                }
                continue;
            }
            let present: Vec<usize> = (0..n).filter(|&j| before[j].is_some()).collect();
            if present.is_empty() {
                ensure!(after.iter().all(|a| a.is_none()), format!("C13/{}/command-from-nowhere", dname), "round {}: no command at any terminal of device {} but reads after update are {:?}", ri, k, after);
                continue;
            }
            let tmax = present.iter().map(|&j| before[j].unwrap().time).max().unwrap();
            let winners: Vec<usize> = present.iter().copied().filter(|&j| before[j].unwrap().time == tmax).collect();
            if present.len() >= 2 && present.iter().any(|&j| before[j].unwrap().time != tmax) {
                competing = true;
            }
            for i in 0..n {
                let Some(g) = after[i] else {
                    return Err(Violation::new(format!("C13/{}/not-relayed", dname), format!("round {}: device {} terminal {} reads no command after update although terminals {:?} had one (reads before {:?})", ri, k, i, present, before)));
                };
                ensure!(g.time == tmax, format!("C13/{}/relay-time", dname), "round {}: device {} ({:?}) terminal {} reads a command stamped {:?} after update although a command stamped {:?} was present at its terminals (reads before {:?})", ri, k, nodes[k].spec, i, g.time, tmax, before);
                let ok = winners.iter().any(|&w| {
                    let wd = before[w].unwrap();
                    g.time == wd.time && PositionDerivative::from(g.value) == PositionDerivative::from(wd.value) && close(f32::from(g.value), map_value(&nodes[k].spec, w, i, f32::from(wd.value) as f64), 1)
                });
                ensure!(
                    ok,
                    format!("C13/{}/relay", dname),
                    "round {}: device {} ({:?}) terminal {} reads {:?} after update; the most recently issued command among its terminals was {:?} at terminal {} (reads before {:?})",
                    ri, k, nodes[k].spec, i, g, before[winners[0]], winners[0], before
                );
            }
        }
        // ---- chain claim: after an in-order pass the newest command has reached the far end ----
        if !is_diff && round.order % 3 == 0 && !issued.is_empty() {
            let (&(k0, j0, _), &(time, kind, value)) = issued.iter().max_by_key(|x| (x.1).0).unwrap();
            let last = m - 1;
            let nlast = nodes[last].spec.terminals();
            if nlast > 0 && nodes[k0].spec.terminals() > 0 && (k0..m).all(|k| nodes[k].spec.terminals() >= 1) && chain_is_connected(&nodes, k0) {
                let far = nodes[last].ext[out_idx(&nodes[last].spec)].unwrap_or(nodes[last].dev.terms[out_idx(&nodes[last].spec)]);
                let got = read_command(far);
                // expected scaling along the path. Every update re-propagates tied copies of the same command (x / r * r), so
                // each earlier round may have cost a rounding per device: the tolerance grows with the rounds played so far
                let mut v = value as f64;
                let mut from = j0;
                let mut hops = 0;
                for k in k0..m {
                    let to = out_idx(&nodes[k].spec);
                    v = map_value(&nodes[k].spec, from, to, v);
                    if from != to {
                        hops += 1;
                    }
                    from = 0; // enters the next device at its `in` terminal
                }
                ensure!(
                    matches!(got, Some(g) if g.time == Time(time) && PositionDerivative::from(g.value) == pd(kind) && close(f32::from(g.value), v, hops.max(1) + 2 * (ri + 1) * m)),
                    "C13/chain/far-end",
                    "round {}: after updating the chain {:?} in order, the far end reads {:?}; the newest command ({:?} {:e} at {}) was issued at device {} terminal {} and should arrive as {:e}",
                    ri, s.devs, got, pd(kind), value, time, k0, j0, v
                );
            }
        }
    }
    let sig: Vec<u64> = s.devs.iter().map(|d| d.code() as u64).chain(s.rounds.iter().map(|r| hash_of(&(r.order % 3, r.issues.iter().map(|i| (i.dev, i.term, i.external, i.kind % 3, i.ts)).collect::<Vec<_>>())))).collect();
    drop(nodes);
    Ok(CaseInfo::new(competing || m >= 3, hash_of(&sig)).class_if(competing, "competing commands with different timestamps").class_if(m >= 3, "chain of >= 3 devices").class_if(is_diff, "differential"))
}
/// chains only contain devices with >= 2 terminals (a 1-terminal axle is only generated alone)
fn chain_is_connected(nodes: &[Node], _k0: usize) -> bool {
    nodes.len() == 1 || nodes.iter().all(|n| n.spec.terminals() >= 2)
}

fn one_dof() -> BoxedStrategy<DevSpec> {
    prop_oneof![3 => Just(DevSpec::Invert), 4 => ratio_strategy().prop_map(DevSpec::Gear), 1 => proptest::collection::vec((1u32..200).prop_map(|x| x as f32), 2..=6).prop_map(DevSpec::GearTeeth), 3 => (2u8..=6).prop_map(DevSpec::Axle)].boxed()
}
fn issue() -> BoxedStrategy<Issue> {
    (0u8..5, 0u8..6, any::<bool>(), 0u8..3, gen::wide(), prop_oneof![1 => Just(0u16), 1 => Just(1u16), 4 => any::<u16>()]).prop_map(|(dev, term, external, kind, value, ts)| Issue { dev, term, external, kind, value, ts }).boxed()
}
fn round() -> BoxedStrategy<Round> {
    (proptest::collection::vec(issue(), 0..=4), prop_oneof![3 => Just(0u8), 1 => Just(1u8), 1 => Just(2u8)], proptest::collection::vec(0u8..5, 0..5)).prop_map(|(issues, order, perm)| Round { issues, order, perm }).boxed()
}

pub struct C13;
impl Property for C13 {
    const ID: &'static str = "C13";
    const RULE: &'static str = "chains of 1..5 one-DOF devices (Invert, GearTrain by ratio in +-[1e-2,1e2] or tooth list, Axle<1..6>) joined terminal to terminal, free terminals connected to external terminals or (a random subset, or all) left unconnected; 1..8 rounds, each issuing 0..4 commands (any kind, finite value, globally distinct timestamps in random age order) on device terminals or external terminals, then updating all devices in chain order, reverse order or a random permutation; plus a differential with commands (and optionally states) on its terminals. Oracle per device update, relative to the command reads just before it: every terminal afterwards reads the most recently issued command among those present, with the issuer's timestamp and kind and the value mapped issuer side -> reader side (negate / x ratio / : ratio / identity) within 2 ulp; after an in-order pass the far end of the chain reads the globally newest command scaled by the product of the ratios (2 ulp per hop); a differential leaves command slots and reads bit-identical. Non-trivial = competing commands with different timestamps at one device, or a chain of >= 3 devices; distinct = (device chain, per-round issue pattern and update order).";
    type Scenario = Scenario;
    fn strategy(_tier: Tier) -> BoxedStrategy<Scenario> {
        let base = || prop_oneof![4 => Just(0i64), 2 => Just(i64::MIN), 1 => -100_000i64..0, 1 => any::<i64>().prop_map(|t| t.clamp(i64::MIN, i64::MAX - 1_000_000_000))];
        let chain = (proptest::collection::vec(one_dof(), 1..=5), proptest::collection::vec(round(), 1..=8), base(), prop_oneof![3 => Just(0u64), 1 => any::<u64>(), 1 => Just(u64::MAX)], proptest::bool::weighted(0.4)).prop_map(|(devs, rounds, time_base, free_mask, with_states)| Scenario { devs, rounds, with_states, time_base, free_mask });
        let single_axle1 = (proptest::collection::vec(round(), 1..=4)).prop_map(|rounds| Scenario { devs: vec![DevSpec::Axle(1)], rounds, with_states: false, time_base: 0, free_mask: 0 });
        let diff = ((0u8..4), proptest::collection::vec(round(), 1..=6), any::<bool>()).prop_map(|(mode, rounds, with_states)| Scenario { devs: vec![DevSpec::Diff(mode)], rounds, with_states, time_base: 0, free_mask: 0 });
        prop_oneof![8 => chain, 1 => single_axle1, 2 => diff].boxed()
    }
    fn cases(tier: Tier) -> u32 {
        tier.pick(25_000, 120_000)
    }
    fn check(s: &Scenario) -> CheckResult {
        check(s)
    }
    fn valid(s: &Scenario) -> bool {
        let m = s.devs.len();
        let one_dof = |d: &DevSpec| !matches!(d, DevSpec::Diff(_)) && crate::c08::dev_valid(d);
        let shape = if m == 1 { crate::c08::dev_valid(&s.devs[0]) && !matches!(s.devs[0], DevSpec::Axle(0)) } else { (2..=5).contains(&m) && s.devs.iter().all(|d| one_dof(d) && d.terminals() >= 2) };
        shape && s.time_base <= i64::MAX - 1_000_000_000 && (1..=8).contains(&s.rounds.len()) && s.rounds.iter().all(|r| r.issues.len() <= 4 && r.perm.len() <= 5 && r.issues.iter().all(|i| dom::wide(i.value)))
    }
    fn assumptions() -> Vec<String> {
        vec!["issued commands carry globally distinct timestamps (as the quantifier states); propagated copies of one command may tie, any tied copy is accepted as the winner".into(), "value mapping is checked to 2 ulp per hop, kind and timestamp exactly".into()]
    }
}
