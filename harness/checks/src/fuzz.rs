//! Engine E2: libFuzzer drives the *same* proptest strategies through a byte tape
//! (`RngAlgorithm::PassThrough`), calls the same `check`, shrinks with the ValueTree, writes the same
//! replay file and aborts. Known findings are tolerated in-target so that a campaign does not
//! rediscover one crash forever.
use crate::common::*;
use proptest::strategy::{Strategy, ValueTree};
use proptest::test_runner::{Config, RngAlgorithm, TestRng, TestRunner};
use std::sync::OnceLock;

fn known() -> &'static Vec<Finding> {
    static K: OnceLock<Vec<Finding>> = OnceLock::new();
    K.get_or_init(load_findings)
}

pub fn run<P: Property>(data: &[u8]) {
    static HOOK: OnceLock<()> = OnceLock::new();
    HOOK.get_or_init(install_silent_panic_hook);
    let mut tape = data.to_vec();
    let mut x = hash_of(data) | 1;
    while tape.len() < data.len() + 262_144 {
        x ^= x << 13;
        x ^= x >> 7;
        x ^= x << 17;
        tape.extend_from_slice(&x.to_le_bytes());
    }
    let rng = TestRng::from_seed(RngAlgorithm::PassThrough, &tape);
    let mut runner = TestRunner::new_with_rng(Config { failure_persistence: None, ..Config::default() }, rng);
    let strategy = P::strategy(Tier::Thorough);
    let Ok(mut tree) = strategy.new_tree(&mut runner) else { return };
    let fails = |s: &P::Scenario| -> Option<Violation> {
        match guarded_check::<P>(s) {
            Ok(_) => None,
            Err(v) => {
                if known().iter().any(|f| f.property == P::ID && f.key == v.key && f.status == "known") {
                    None
                } else {
                    Some(v)
                }
            }
        }
    };
    let first = tree.current();
    let Some(mut last_violation) = fails(&first) else { return };
    let mut last_fail = first;
    // shrink
    let mut steps = 0;
    if tree.simplify() {
        loop {
            steps += 1;
            if steps > 20_000 {
                break;
            }
            let cur = tree.current();
            if let Some(v) = fails(&cur) {
                last_fail = cur;
                last_violation = v;
                if !tree.simplify() {
                    break;
                }
            } else if !tree.complicate() {
                break;
            }
        }
    }
    let rf = ReplayFile { property: P::ID.to_string(), key: last_violation.key.clone(), message: last_violation.message.clone(), scenario: serde_json::to_value(&last_fail).unwrap() };
    let dir = verif_root().join("work").join("replays");
    let _ = std::fs::create_dir_all(&dir);
    let text = serde_json::to_string_pretty(&rf).unwrap();
    let path = dir.join(format!("{}-fuzz-{:016x}.json", P::ID, hash_of(&text)));
    let _ = std::fs::write(&path, text);
    println!("violation detail: key={} message={}", last_violation.key, last_violation.message);
    println!("VIOLATION property={} replay={}", P::ID, path.display());
    std::process::abort();
}
