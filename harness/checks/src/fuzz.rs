//! Engine E2: coverage-guided fuzzing (libFuzzer) of the history-shaped properties.
//!
//! The fuzz input *is* the property's scenario, serialised as JSON - the same format as the replay
//! files - so every corpus entry and every crash artifact is directly replayable with
//! `./run replay`. A custom mutator keeps inputs structurally valid: it parses the JSON, applies a
//! structure-aware mutation to the value tree (tweak a number, delete / duplicate / swap array
//! elements, splice in a sub-tree of a freshly generated scenario, or start from a fresh scenario
//! drawn from the property's own proptest strategy) and only emits results that deserialise and lie
//! inside the property's input domain (`Property::valid`). The semantic oracle is the property's own
//! `check`; known findings are tolerated in-target; failures are shrunk structurally, written as a
//! replay file and reported with the usual VIOLATION line before aborting.
//!
//! (The first design - feeding libFuzzer's bytes to proptest through `RngAlgorithm::PassThrough` - does
//! not work for these strategies: proptest forks the RNG for every lazily built `prop_oneof!`
//! alternative, and PassThrough forks by halving the remaining tape, which exhausts it after ~18
//! forks whatever its length; the strategy then spins forever on an all-zero stream.)
use crate::common::*;
use proptest::strategy::{Strategy, ValueTree};
use proptest::test_runner::{Config, RngAlgorithm, RngSeed, TestRunner};
use serde_json::Value;
use std::sync::OnceLock;

fn known() -> &'static Vec<Finding> {
    static K: OnceLock<Vec<Finding>> = OnceLock::new();
    K.get_or_init(load_findings)
}
fn init() {
    static HOOK: OnceLock<()> = OnceLock::new();
    HOOK.get_or_init(install_silent_panic_hook);
}
fn fails<P: Property>(s: &P::Scenario) -> Option<Violation> {
    match guarded_check::<P>(s) {
        Ok(_) => None,
        Err(v) => {
            if known().iter().any(|f| f.property == P::ID && f.key == v.key && f.status == "known") {
                None
            } else {
                Some(v)
            }
        }
    }
}
fn parse<P: Property>(v: &Value) -> Option<P::Scenario> {
    let s: P::Scenario = serde_json::from_value(v.clone()).ok()?;
    // a domain predicate that itself panics on a mutated value (an overflow on an extreme integer, say) must read as
    // "outside the domain", not abort the fuzzer from inside its mutator callback
    if std::panic::catch_unwind(std::panic::AssertUnwindSafe(|| P::valid(&s))).unwrap_or(false) {
        Some(s)
    } else {
        None
    }
}

/// A fresh scenario from the property's own strategy, deterministically from `seed`.
pub fn fresh<P: Property>(seed: u64) -> P::Scenario {
    let config = Config { failure_persistence: None, rng_seed: RngSeed::Fixed(seed), rng_algorithm: RngAlgorithm::ChaCha, ..Config::default() };
    let mut runner = TestRunner::new(config);
    P::strategy(Tier::Thorough).new_tree(&mut runner).expect("strategy").current()
}

struct Lcg(u64);
impl Lcg {
    fn next(&mut self) -> u64 {
        self.0 = splitmix(self.0);
        self.0
    }
    fn below(&mut self, n: usize) -> usize {
        if n == 0 {
            0
        } else {
            (self.next() % n as u64) as usize
        }
    }
}

#[derive(Clone, Debug)]
enum Seg {
    Key(String),
    Idx(usize),
}
fn walk(v: &Value, path: &mut Vec<Seg>, nums: &mut Vec<Vec<Seg>>, arrays: &mut Vec<Vec<Seg>>, all: &mut Vec<Vec<Seg>>) {
    all.push(path.clone());
    match v {
        Value::Number(_) => nums.push(path.clone()),
        Value::Array(a) => {
            arrays.push(path.clone());
            for (i, x) in a.iter().enumerate() {
                path.push(Seg::Idx(i));
                walk(x, path, nums, arrays, all);
                path.pop();
            }
        }
        Value::Object(o) => {
            for (k, x) in o {
                path.push(Seg::Key(k.clone()));
                walk(x, path, nums, arrays, all);
                path.pop();
            }
        }
        _ => {}
    }
}
fn get<'a>(v: &'a Value, path: &[Seg]) -> Option<&'a Value> {
    let mut cur = v;
    for s in path {
        cur = match s {
            Seg::Key(k) => cur.get(k)?,
            Seg::Idx(i) => cur.get(*i)?,
        };
    }
    Some(cur)
}
fn get_mut<'a>(v: &'a mut Value, path: &[Seg]) -> Option<&'a mut Value> {
    let mut cur = v;
    for s in path {
        cur = match s {
            Seg::Key(k) => cur.get_mut(k)?,
            Seg::Idx(i) => cur.get_mut(*i)?,
        };
    }
    Some(cur)
}
fn tweak_number(n: &serde_json::Number, r: &mut Lcg) -> Value {
    if let Some(i) = n.as_i64() {
        let c = r.below(10);
        let out = match c {
            0 => i.wrapping_add(1),
            1 => i.wrapping_sub(1),
            2 => i.wrapping_mul(2),
            3 => i / 2,
            4 => i.wrapping_neg(),
            5 => 0,
            6 => 1,
            7 => i.wrapping_add((r.next() % 1000) as i64 - 500),
            8 => i.wrapping_mul(1000),
            _ => i / 1000,
        };
        return Value::from(out);
    }
    if let Some(u) = n.as_u64() {
        return Value::from(u / 2);
    }
    let f = n.as_f64().unwrap_or(0.0);
    let c = r.below(10);
    let out = match c {
        0 => -f,
        1 => 0.0,
        2 => f * 2.0,
        3 => f * 0.5,
        4 => f + 0.25,
        5 => (f as f32 as f64) * (1.0 + 1.1920929e-7),
        6 => f * 10.0,
        7 => f / 10.0,
        8 => 1.0,
        _ => f.round(),
    };
    serde_json::Number::from_f64(out as f32 as f64).map(Value::Number).unwrap_or(Value::from(0.0))
}

fn mutate_value<P: Property>(base: &Value, r: &mut Lcg) -> Value {
    let mut v = base.clone();
    let (mut nums, mut arrays, mut all) = (Vec::new(), Vec::new(), Vec::new());
    walk(&v, &mut Vec::new(), &mut nums, &mut arrays, &mut all);
    match r.below(100) {
        0..=34 if !nums.is_empty() => {
            // tweak one to three numbers
            for _ in 0..1 + r.below(3) {
                let p = &nums[r.below(nums.len())];
                if let Some(Value::Number(n)) = get(&v, p).cloned() {
                    let t = tweak_number(&n, r);
                    if let Some(slot) = get_mut(&mut v, p) {
                        *slot = t;
                    }
                }
            }
        }
        35..=59 if !arrays.is_empty() => {
            let p = arrays[r.below(arrays.len())].clone();
            if let Some(Value::Array(a)) = get_mut(&mut v, &p) {
                let n = a.len();
                match r.below(5) {
                    0 if n > 0 => {
                        a.remove(r.below(n));
                    }
                    1 if n > 0 => {
                        let i = r.below(n);
                        let x = a[i].clone();
                        a.insert(r.below(n + 1), x);
                    }
                    2 if n > 1 => {
                        let (i, j) = (r.below(n), r.below(n));
                        a.swap(i, j);
                    }
                    3 if n > 1 => {
                        a.truncate(1 + r.below(n - 1));
                    }
                    _ if n > 0 => {
                        // repeat a slice at the end (long-range state)
                        let i = r.below(n);
                        let tail: Vec<Value> = a[i..].to_vec();
                        a.extend(tail);
                    }
                    _ => {}
                }
            }
        }
        60..=84 => {
            // crossover with a fresh scenario: replace a random sub-tree by the sub-tree at the same path, or splice arrays
            let f = serde_json::to_value(fresh::<P>(r.next())).unwrap();
            if !all.is_empty() {
                let p = all[r.below(all.len())].clone();
                if let (Some(theirs), true) = (get(&f, &p).cloned(), !p.is_empty()) {
                    match (get_mut(&mut v, &p), theirs) {
                        (Some(Value::Array(mine)), Value::Array(th)) if r.below(2) == 0 => {
                            let cut = r.below(mine.len() + 1);
                            mine.truncate(cut);
                            let from = r.below(th.len() + 1);
                            mine.extend(th[from..].iter().cloned());
                        }
                        (Some(slot), th) => *slot = th,
                        _ => {}
                    }
                } else {
                    v = f;
                }
            }
        }
        _ => v = serde_json::to_value(fresh::<P>(r.next())).unwrap(),
    }
    v
}

/// libFuzzer custom mutator (see `fuzz_mutator!` in the targets).
pub fn mutate<P: Property>(data: &mut [u8], size: usize, max_size: usize, seed: u32) -> usize {
    init();
    let mut r = Lcg(seed as u64 ^ 0x5DEECE66D);
    let current: Option<Value> = serde_json::from_slice::<Value>(&data[..size.min(data.len())]).ok().filter(|v| parse::<P>(v).is_some());
    let mut out: Option<Vec<u8>> = None;
    if let Some(base) = &current {
        for _ in 0..8 {
            let m = mutate_value::<P>(base, &mut r);
            if parse::<P>(&m).is_some() {
                let bytes = serde_json::to_vec(&m).unwrap();
                if bytes.len() <= max_size.min(data.len()) {
                    out = Some(bytes);
                    break;
                }
            }
        }
    }
    let bytes = match out {
        Some(b) => b,
        None => {
            let mut b = Vec::new();
            for _ in 0..8 {
                b = serde_json::to_vec(&fresh::<P>(r.next())).unwrap();
                if b.len() <= max_size.min(data.len()) {
                    break;
                }
            }
            if b.len() > max_size.min(data.len()) {
                return size; // keep the input as it is
            }
            b
        }
    };
    data[..bytes.len()].copy_from_slice(&bytes);
    bytes.len()
}

/// structural shrink: greedily delete array elements while the (unknown) violation persists
fn shrink<P: Property>(mut v: Value, mut viol: Violation) -> (Value, Violation) {
    for _round in 0..6 {
        let mut progress = false;
        let (mut nums, mut arrays, mut all) = (Vec::new(), Vec::new(), Vec::new());
        walk(&v, &mut Vec::new(), &mut nums, &mut arrays, &mut all);
        for p in arrays.iter().rev() {
            let len = match get(&v, p) {
                Some(Value::Array(a)) => a.len(),
                _ => continue,
            };
            let mut i = len;
            while i > 0 {
                i -= 1;
                let mut cand = v.clone();
                if let Some(Value::Array(a)) = get_mut(&mut cand, p) {
                    if i < a.len() {
                        a.remove(i);
                    }
                }
                if let Some(s) = parse::<P>(&cand) {
                    if let Some(nv) = fails::<P>(&s) {
                        v = cand;
                        viol = nv;
                        progress = true;
                    }
                }
            }
        }
        if !progress {
            break;
        }
    }
    (v, viol)
}

/// libFuzzer target body.
pub fn run<P: Property>(data: &[u8]) {
    init();
    let Ok(v) = serde_json::from_slice::<Value>(data) else { return };
    // accept both bare scenarios and replay files
    let v = if v.get("scenario").is_some() && v.get("property").is_some() { v["scenario"].clone() } else { v };
    let Some(s) = parse::<P>(&v) else { return };
    let Some(viol) = fails::<P>(&s) else { return };
    let (v, viol) = shrink::<P>(v, viol);
    let rf = ReplayFile { property: P::ID.to_string(), key: viol.key.clone(), message: viol.message.clone(), scenario: v };
    let dir = verif_root().join("work").join("replays");
    let _ = std::fs::create_dir_all(&dir);
    let text = serde_json::to_string_pretty(&rf).unwrap();
    let path = dir.join(format!("{}-fuzz-{:016x}.json", P::ID, hash_of(&text)));
    let _ = std::fs::write(&path, text);
    println!("violation detail: key={} message={}", viol.key, viol.message);
    println!("VIOLATION property={} replay={}", P::ID, path.display());
    std::process::abort();
}

/// `rrtk-verif corpus:<ID> <dir>`: seed corpus = generated scenarios + the property's saved regressions
pub fn write_corpus<P: Property>(dir: &std::path::Path) -> i32 {
    let _ = std::fs::create_dir_all(dir);
    let seed0 = std::env::var("VERIF_SEED").ok().and_then(|s| s.parse::<u64>().ok()).unwrap_or(20261002);
    for i in 0..48u64 {
        let s = fresh::<P>(splitmix(seed0 ^ i));
        let _ = std::fs::write(dir.join(format!("gen-{:02}.json", i)), serde_json::to_vec(&s).unwrap());
    }
    if let Ok(rd) = std::fs::read_dir(verif_root().join("regressions").join(P::ID)) {
        for e in rd.flatten() {
            if let Ok(text) = std::fs::read_to_string(e.path()) {
                if let Ok(rf) = serde_json::from_str::<ReplayFile>(&text) {
                    let _ = std::fs::write(dir.join(format!("reg-{}", e.file_name().to_string_lossy())), serde_json::to_vec(&rf.scenario).unwrap());
                }
            }
        }
    }
    0
}
