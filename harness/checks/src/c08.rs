//! C08 — device update projects measured states onto the mechanical constraint.
use crate::common::*;
use crate::devs::*;
use crate::ensure;
use crate::rnum::{Headroom, R};
use proptest::prelude::*;
use rrtk::*;
use serde::{Deserialize, Serialize};

#[derive(Clone, Copy, Debug, Serialize, Deserialize, PartialEq)]
pub struct Feed {
    /// new state written to the device terminal's own slot this round (value, time offset)
    pub own: Option<([f32; 3], u8)>,
    /// new state written to the connected external terminal this round
    pub partner: Option<([f32; 3], u8)>,
}
#[derive(Clone, Debug, Serialize, Deserialize)]
pub struct Scenario {
    pub dev: DevSpec,
    /// per device terminal: is an external terminal connected to it?
    pub linked: Vec<bool>,
    pub rounds: Vec<Vec<Feed>>,
    /// all timestamps are offset by this (negative, near the ends of the i64 range, ...)
    #[serde(default)]
    pub time_base: i64,
    /// later rounds carry *older* timestamps than earlier ones (a sensor log replayed backwards, a clock stepped back): what
    /// a slot holds is the last value written, whatever its stamp
    #[serde(default)]
    pub backwards: bool,
}
static HEADROOM: Headroom = Headroom::new();

type RS = [R; 3];
fn rs(s: State) -> RS {
    flat(s).map(R::exact)
}
fn admits(want: &RS, got: State, slack: f64) -> Option<String> {
    let g = flat(got);
    for c in 0..3 {
        if !want[c].is_finite() {
            continue;
        }
        HEADROOM.observe(want[c].ratio(g[c]));
        if !want[c].admits(g[c], slack, 0.0) {
            return Some(format!("component {}: got {:e}, reference {:e} (allowed deviation {:e})", c, g[c], want[c].v, slack * want[c].e));
        }
    }
    None
}
fn bits_state(a: State, b: State) -> bool {
    flat(a).iter().zip(flat(b).iter()).all(|(x, y)| same_f32(*x, *y))
}
fn opt_same(a: Option<Datum<State>>, b: Option<Datum<State>>) -> bool {
    match (a, b) {
        (None, None) => true,
        (Some(x), Some(y)) => x.time == y.time && bits_state(x.value, y.value),
        _ => false,
    }
}

pub fn check(s: &Scenario) -> CheckResult {
    let n = s.dev.terminals();
    let mut arena = Arena::new();
    let mut dev = make_dev(&mut arena, &s.dev);
    let ext: Vec<Option<Term>> = (0..n).map(|i| if s.linked.get(i).copied().unwrap_or(false) { Some(arena.terminal()) } else { None }).collect();
    for i in 0..n {
        if let Some(e) = ext[i] {
            connect(dev.terms[i], e);
        }
    }
    let dname = format!("{:?}", s.dev).split('(').next().unwrap().to_string();
    let mut conflict_round = false;
    let mut sig: Vec<u64> = vec![s.dev.code() as u64];
    for (ri, round) in s.rounds.iter().enumerate() {
        let base = s.time_base + if s.backwards { (s.rounds.len() - ri) as i64 } else { ri as i64 + 1 } * 1000;
        for i in 0..n {
            let f = round.get(i).copied().unwrap_or(Feed { own: None, partner: None });
            if let Some((v, dt)) = f.own {
                set_state(dev.terms[i], Datum::new(Time(base + dt as i64), st(v)));
            }
            if let (Some((v, dt)), Some(e)) = (f.partner, ext[i]) {
                set_state(e, Datum::new(Time(base + dt as i64), st(v)));
            }
            sig.push(hash_of(&(f.own.is_some(), f.partner.is_some() && ext[i].is_some())));
        }
        let reads: Vec<Option<Datum<State>>> = dev.terms.iter().map(|t| read_state(*t)).collect();
        let own_before: Vec<Option<Datum<State>>> = dev.terms.iter().map(|t| own_state(*t)).collect();
        // "the states read at its terminals": a read is the mean of the terminal's own and its partner's latest states (or
        // whichever exists), stamped with the newer of the two - checked against the two slots themselves
        for i in 0..n {
            let partner = ext[i].and_then(own_state);
            let want = match (own_before[i], partner) {
                (None, None) => None,
                (Some(d), None) | (None, Some(d)) => Some(d),
                (Some(a), Some(b)) => Some(Datum::new(if a.time >= b.time { a.time } else { b.time }, (a.value + b.value) / 2.0)),
            };
            let same = match (reads[i], want) {
                (None, None) => true,
                (Some(g), Some(w)) => g.time == w.time && flat(g.value).iter().zip(flat(w.value).iter()).all(|(x, y)| same_f32(*x, *y) || ((*x as f64 - *y as f64).abs() <= 2.0 * ulp32(*y as f64))),
                _ => false,
            };
            ensure!(same, format!("C08/{}/terminal-read", dname), "round {}: terminal {} holds {:?}, its partner {:?}; the state read there is {:?}, expected their mean stamped with the newer time {:?}", ri, i, own_before[i], partner, reads[i], want);
        }
        let r = catch(|| (dev.update)());
        ensure!(matches!(r, Ok(Ok(()))), format!("C08/{}/update-failed", dname), "round {}: update returned {:?}", ri, r);
        let own_after: Vec<Option<Datum<State>>> = dev.terms.iter().map(|t| own_state(*t)).collect();
        let unchanged = |i: usize| opt_same(own_before[i], own_after[i]);
        let newest = |idx: &[usize]| idx.iter().filter_map(|&i| reads[i].map(|d| d.time)).max().unwrap();
        let site = |what: &str| format!("C08/{}/{}", dname, what);
        match &s.dev {
            DevSpec::Invert | DevSpec::Gear(_) | DevSpec::GearTeeth(_) => {
                let ratio = s.dev.ratio().unwrap();
                let exact_invert = s.dev == DevSpec::Invert;
                match (reads[0], reads[1]) {
                    (None, None) => ensure!(unchanged(0) && unchanged(1), site("wrote-without-data"), "round {}: no terminal has data but own slots changed {:?} -> {:?}", ri, own_before, own_after),
                    (Some(a), None) => {
                        ensure!(unchanged(0), site("informed-side-changed"), "round {}: only side 1 has data; its own slot changed {:?} -> {:?}", ri, own_before[0], own_after[0]);
                        let want = if exact_invert { -a.value } else { a.value * ratio };
                        ensure!(!matches!(own_after[1], Some(d) if d.time != a.time && bits_state(d.value, want)), site("implied-time"), "round {}: side 2 has no information and receives the implied value, but stamped {:?} instead of the contributing read's {:?}", ri, own_after[1].map(|d| d.time), a.time);
                        ensure!(matches!(own_after[1], Some(d) if d.time == a.time && bits_state(d.value, want)), site("implied-value"), "round {}: side 2 has no information and should receive {:?} stamped {:?} (ratio {}), got {:?}", ri, want, a.time, ratio, own_after[1]);
                    }
                    (None, Some(b)) => {
                        ensure!(unchanged(1), site("informed-side-changed"), "round {}: only side 2 has data; its own slot changed {:?} -> {:?}", ri, own_before[1], own_after[1]);
                        let want = if exact_invert { -b.value } else { b.value / ratio };
                        ensure!(!matches!(own_after[0], Some(d) if d.time != b.time && bits_state(d.value, want)), site("implied-time"), "round {}: side 1 has no information and receives the implied value, but stamped {:?} instead of the contributing read's {:?}", ri, own_after[0].map(|d| d.time), b.time);
                        ensure!(matches!(own_after[0], Some(d) if d.time == b.time && bits_state(d.value, want)), site("implied-value"), "round {}: side 1 has no information and should receive {:?} stamped {:?} (ratio {}), got {:?}", ri, want, b.time, ratio, own_after[0]);
                    }
                    (Some(a), Some(b)) => {
                        let t = newest(&[0, 1]);
                        let r = R::exact(ratio);
                        let (x, y) = (rs(a.value), rs(b.value));
                        let mut w1 = [R::ZERO; 3];
                        let mut w2 = [R::ZERO; 3];
                        for c in 0..3 {
                            if exact_invert {
                                w1[c] = (x[c] - y[c]) / R::c(2.0);
                                w2[c] = -w1[c];
                            } else {
                                let num = x[c] + y[c] * r;
                                let den = r * r + R::c(1.0);
                                w1[c] = num / den;
                                w2[c] = (num * r) / den;
                            }
                        }
                        let (Some(o1), Some(o2)) = (own_after[0], own_after[1]) else {
                            return Err(Violation::new(site("not-written"), format!("round {}: both sides have data but an own slot is empty after update: {:?}", ri, own_after)));
                        };
                        ensure!(o1.time == t && o2.time == t, site("time"), "round {}: projection stamped {:?}/{:?}, newest contributing read is {:?}", ri, o1.time, o2.time, t);
                        if let Some(m) = admits(&w1, o1.value, 4.0) {
                            return Err(Violation::new(site("projection"), format!("round {}: side 1 after update of reads {:?} / {:?} (ratio {}): {}", ri, a.value, b.value, ratio, m)));
                        }
                        if let Some(m) = admits(&w2, o2.value, 4.0) {
                            return Err(Violation::new(site("projection"), format!("round {}: side 2 after update of reads {:?} / {:?} (ratio {}): {}", ri, a.value, b.value, ratio, m)));
                        }
                        // the constraint itself, independently of the projection formula
                        let cons: RS = core::array::from_fn(|c| R::exact(flat(o1.value)[c]) * r);
                        let mut cons = cons;
                        for c in 0..3 {
                            cons[c] = cons[c].widen(4.0 * w2[c].e);
                        }
                        if let Some(m) = admits(&cons, o2.value, 4.0) {
                            return Err(Violation::new(site("constraint"), format!("round {}: own slots {:?} and {:?} do not satisfy side2 = {} * side1: {}", ri, o1.value, o2.value, ratio, m)));
                        }
                        // conflict?
                        let consistent = (0..3).all(|c| ((flat(b.value)[c] as f64) - (flat(a.value)[c] as f64) * ratio as f64).abs() <= 1e-6 * (flat(b.value)[c].abs() as f64 + 1e-6));
                        if !consistent {
                            conflict_round = true;
                        }
                    }
                }
            }
            DevSpec::Axle(_) => {
                let present: Vec<usize> = (0..n).filter(|&i| reads[i].is_some()).collect();
                if present.is_empty() {
                    ensure!((0..n).all(unchanged), site("wrote-without-data"), "round {}: no terminal has data but own slots changed", ri);
                } else {
                    let t = newest(&present);
                    let mut sum = [R::ZERO; 3];
                    for &i in &present {
                        let v = rs(reads[i].unwrap().value);
                        for c in 0..3 {
                            sum[c] = sum[c] + v[c];
                        }
                    }
                    let cnt = R::c(present.len() as f64);
                    let want: RS = core::array::from_fn(|c| sum[c] / cnt);
                    let first = own_after[0];
                    for i in 0..n {
                        let Some(o) = own_after[i] else {
                            return Err(Violation::new(site("not-written"), format!("round {}: axle terminal {} has no state after an update with data", ri, i)));
                        };
                        ensure!(o.time == t, site("time"), "round {}: axle terminal {} stamped {:?}, newest contributing read is {:?}", ri, i, o.time, t);
                        if let Some(m) = admits(&want, o.value, 4.0) {
                            return Err(Violation::new(site("projection"), format!("round {}: axle terminal {} vs the mean of the {} present reads: {}", ri, i, present.len(), m)));
                        }
                        ensure!(opt_same(own_after[i], first), site("constraint"), "round {}: axle terminals 0 and {} hold different states {:?} vs {:?}", ri, i, first, own_after[i]);
                    }
                    if present.len() >= 2 && present.iter().any(|&i| !bits_state(reads[i].unwrap().value, reads[present[0]].unwrap().value)) {
                        conflict_round = true;
                    }
                }
            }
            DevSpec::Diff(mode) => {
                let mode = mode % 4;
                let (s1, s2, sm) = (reads[0], reads[1], reads[2]);
                let needed: Vec<usize> = match mode {
                    0 => vec![2, 1],
                    1 => vec![2, 0],
                    2 => vec![0, 1],
                    _ => vec![0, 1, 2],
                };
                if needed.iter().any(|&i| reads[i].is_none()) {
                    ensure!((0..3).all(unchanged), site("wrote-without-trusted-data"), "round {}: a trusted branch has no data (reads {:?}) but own slots changed {:?} -> {:?}", ri, reads, own_before, own_after);
                } else {
                    let t = newest(&needed);
                    match mode {
                        0 | 1 | 2 => {
                            let (target, want) = match mode {
                                0 => (0, sm.unwrap().value - s2.unwrap().value),
                                1 => (1, sm.unwrap().value - s1.unwrap().value),
                                _ => (2, s1.unwrap().value + s2.unwrap().value),
                            };
                            ensure!(!matches!(own_after[target], Some(d) if d.time != t && bits_state(d.value, want)), site("recomputed-time"), "round {}: distrusted branch {} is recomputed correctly but stamped {:?}, the newest contributing read is {:?}", ri, target, own_after[target].map(|d| d.time), t);
                            ensure!(matches!(own_after[target], Some(d) if d.time == t && bits_state(d.value, want)), site("recomputed-branch"), "round {}: distrusted branch {} should be recomputed from the other two reads as {:?} stamped {:?}, got {:?}", ri, target, want, t, own_after[target]);
                            for i in 0..3 {
                                if i != target {
                                    ensure!(unchanged(i), site("trusted-branch-changed"), "round {}: trusted branch {} own slot changed {:?} -> {:?}", ri, i, own_before[i], own_after[i]);
                                }
                            }
                            conflict_round |= !matches!(reads[target], Some(d) if bits_state(d.value, want));
                        }
                        _ => {
                            let (x, y, z) = (rs(s1.unwrap().value), rs(s2.unwrap().value), rs(sm.unwrap().value));
                            let three = R::c(3.0);
                            let two = R::c(2.0);
                            let wsum: RS = core::array::from_fn(|c| (x[c] + y[c] + z[c] * two) / three);
                            let w1: RS = core::array::from_fn(|c| (x[c] * two - y[c] + z[c]) / three);
                            let w2: RS = core::array::from_fn(|c| (-x[c] + y[c] * two + z[c]) / three);
                            let (Some(o1), Some(o2), Some(os)) = (own_after[0], own_after[1], own_after[2]) else {
                                return Err(Violation::new(site("not-written"), format!("round {}: all branches have data but an own slot is empty: {:?}", ri, own_after)));
                            };
                            ensure!(o1.time == t && o2.time == t && os.time == t, site("time"), "round {}: projection stamped {:?}/{:?}/{:?}, newest contributing read {:?}", ri, o1.time, o2.time, os.time, t);
                            for (name, w, o) in [("side 1", &w1, o1), ("side 2", &w2, o2), ("sum", &wsum, os)] {
                                if let Some(m) = admits(w, o.value, 4.0) {
                                    return Err(Violation::new(site("projection"), format!("round {}: {} after update of reads {:?}: {}", ri, name, reads, m)));
                                }
                            }
                            // constraint: side1 + side2 = sum
                            let cons: RS = core::array::from_fn(|c| (R::exact(flat(o1.value)[c]) + R::exact(flat(o2.value)[c])).widen(4.0 * (w1[c].e + w2[c].e + wsum[c].e)));
                            if let Some(m) = admits(&cons, os.value, 4.0) {
                                return Err(Violation::new(site("constraint"), format!("round {}: own slots do not satisfy side1 + side2 = sum: {}", ri, m)));
                            }
                            conflict_round = true;
                        }
                    }
                }
            }
        }
    }
    drop(dev);
    Ok(CaseInfo::new(conflict_round, hash_of(&sig)).class_if(conflict_round, "round with conflicting data").class_if(s.rounds.len() >= 3, ">= 3 rounds"))
}

fn triple() -> BoxedStrategy<[f32; 3]> {
    [gen::wide(), gen::wide(), gen::wide()].boxed()
}
fn feed() -> BoxedStrategy<Feed> {
    let w = || proptest::option::weighted(0.45, (triple(), any::<u8>()));
    (w(), w()).prop_map(|(own, partner)| Feed { own, partner }).boxed()
}
/// device specifications inside the quantified domain
pub fn dev_valid(d: &DevSpec) -> bool {
    match d {
        DevSpec::Invert => true,
        DevSpec::Gear(r) => r.is_finite() && (1.0e-2..=1.0e2).contains(&r.abs()),
        DevSpec::GearTeeth(t) => (2..=6).contains(&t.len()) && t.iter().all(|x| (1.0..=200.0).contains(x) && x.fract() == 0.0),
        DevSpec::Axle(n) => *n <= 6,
        DevSpec::Diff(m) => *m < 4,
    }
}
/// offset of all timestamps of a device scenario: zero, negative, straddling zero, both ends of the i64 range
pub fn time_base() -> BoxedStrategy<i64> {
    prop_oneof![4 => Just(0i64), 2 => -20_000i64..0, 2 => any::<i64>().prop_map(|t| t.clamp(i64::MIN, i64::MAX - 1_000_000)), 1 => Just(i64::MIN), 1 => Just(i64::MIN + 1), 1 => Just(i64::MAX - 1_000_000)].boxed()
}
pub fn ratio_strategy() -> BoxedStrategy<f32> {
    prop_oneof![
        2 => proptest::sample::select(vec![1.0f32, -1.0, 2.0, -2.0, 0.5, -0.5, 3.0, -0.25]),
        5 => (any::<bool>(), -2.0f64..2.0).prop_map(|(neg, e)| { let v = 10f64.powf(e) as f32; if neg { -v } else { v } }),
    ]
    .boxed()
}
pub fn dev_strategy() -> BoxedStrategy<DevSpec> {
    prop_oneof![
        2 => Just(DevSpec::Invert),
        3 => ratio_strategy().prop_map(DevSpec::Gear),
        1 => proptest::collection::vec((1u32..200).prop_map(|x| x as f32), 2..=6).prop_map(DevSpec::GearTeeth),
        3 => (0u8..=6).prop_map(DevSpec::Axle),
        4 => (0u8..4).prop_map(DevSpec::Diff),
    ]
    .boxed()
}

pub struct C08;
impl Property for C08 {
    const ID: &'static str = "C08";
    const RULE: &'static str = "(plus enumerated three-round scenarios whose readings satisfy each device shape's constraint exactly) devices: Invert, GearTrain (ratio in +-[1e-2,1e2] or tooth lists of length 2..6), Axle<0..6>, Differential x 4 distrust modes; each device terminal optionally connected to an external terminal; 1..8 rounds in which every device terminal independently receives a new finite state through its own slot, through the external terminal, through both or not at all (timestamps fresh per round with random offsets; in a quarter of the scenarios later rounds carry older timestamps), then update(). Oracle per update, relative to the states read at the terminals just before it: least-squares projection in f64 with a running f32 error bound (x4), exact formulas for one-sided propagation and recomputed differential branches, newest contributing timestamp, constraint re-checked on the written own slots independently of the projection, nothing written when the statement says so (no data / untrusted data missing; the informed side of a one-sided update is left alone). Non-trivial = a round in which >= 2 terminals hold differing data that violate the constraint; distinct = (device, per-terminal feed pattern per round).";
    type Scenario = Scenario;
    fn strategy(_tier: Tier) -> BoxedStrategy<Scenario> {
        dev_strategy()
            .prop_flat_map(|dev| {
                let n = dev.terminals();
                (Just(dev), proptest::collection::vec(proptest::bool::weighted(0.6), n..=n), proptest::collection::vec(proptest::collection::vec(feed(), n..=n), 1..=8), time_base(), proptest::bool::weighted(0.25))
            })
            .prop_map(|(dev, linked, rounds, time_base, backwards)| Scenario { dev, linked, rounds, time_base, backwards })
            .boxed()
    }
    fn cases(tier: Tier) -> u32 {
        tier.pick(30_000, 150_000)
    }
    fn exhaustive(_tier: Tier, sink: &mut dyn FnMut(Scenario)) -> Vec<String> {
        // every subset of terminals having / lacking data (own or partner), one round, for each device shape
        let mut n = 0u64;
        let devs = vec![DevSpec::Invert, DevSpec::Gear(2.5), DevSpec::Gear(-0.4), DevSpec::GearTeeth(vec![20.0, 40.0]), DevSpec::GearTeeth(vec![12.0, 30.0, 18.0]), DevSpec::Axle(0), DevSpec::Axle(1), DevSpec::Axle(3), DevSpec::Axle(4), DevSpec::Diff(0), DevSpec::Diff(1), DevSpec::Diff(2), DevSpec::Diff(3)];
        for dev in devs {
            let k = dev.terminals();
            for mask in 0..4u32.pow(k as u32) {
                let mut m = mask;
                let round: Vec<Feed> = (0..k)
                    .map(|i| {
                        let code = m % 4;
                        m /= 4;
                        let v = [1.5 + i as f32, -0.5 * (i as f32 + 1.0), 0.25];
                        let w = [-2.0 + 0.75 * i as f32, 4.0, -1.0];
                        Feed { own: if code & 1 != 0 { Some((v, (i * 7) as u8)) } else { None }, partner: if code & 2 != 0 { Some((w, (20 - i * 3) as u8)) } else { None } }
                    })
                    .collect();
                sink(Scenario { dev: dev.clone(), linked: vec![true; k], rounds: vec![round.clone(), round.clone()], time_base: 0, backwards: false });
                sink(Scenario { dev: dev.clone(), linked: vec![true; k], rounds: vec![round.clone(), round], time_base: -5_000, backwards: true });
                n += 1;
                n += 1;
            }
        }
        // readings that already satisfy the constraint exactly (values exact in f32), arriving through the connected terminals
        // only and then through the own slots only: the device's terminals must hold them after the update, round after round
        let consistent: Vec<(DevSpec, Vec<[f32; 3]>)> = vec![
            (DevSpec::Invert, vec![[2.0, -1.0, 0.5], [-2.0, 1.0, -0.5]]),
            (DevSpec::Gear(2.5), vec![[2.0, 4.0, -8.0], [5.0, 10.0, -20.0]]),
            (DevSpec::Gear(-0.5), vec![[2.0, 4.0, -8.0], [-1.0, -2.0, 4.0]]),
            (DevSpec::Axle(3), vec![[1.5, -2.0, 0.25]; 3]),
            (DevSpec::Diff(0), vec![[2.0, 1.0, 0.5], [3.0, -4.0, 0.25], [5.0, -3.0, 0.75]]),
            (DevSpec::Diff(1), vec![[2.0, 1.0, 0.5], [3.0, -4.0, 0.25], [5.0, -3.0, 0.75]]),
            (DevSpec::Diff(2), vec![[2.0, 1.0, 0.5], [3.0, -4.0, 0.25], [5.0, -3.0, 0.75]]),
            (DevSpec::Diff(3), vec![[2.0, 1.0, 0.5], [3.0, -4.0, 0.25], [5.0, -3.0, 0.75]]),
        ];
        let mut m = 0u64;
        for (dev, vals) in consistent {
            let k = dev.terminals();
            for via_partner in [true, false] {
                let round = |scale: f32, t0: u8| -> Vec<Feed> { (0..k).map(|i| { let v = vals[i].map(|x| x * scale); let d = Some((v, t0 + i as u8)); if via_partner { Feed { own: None, partner: d } } else { Feed { own: d, partner: None } } }).collect() };
                sink(Scenario { dev: dev.clone(), linked: vec![true; k], rounds: vec![round(1.0, 1), round(2.0, 11), round(2.0, 21)], time_base: 0, backwards: false });
                m += 1;
            }
        }
        vec![format!("every own/partner data-presence pattern of every terminal for 13 device shapes, two identical rounds ({} scenarios)", n), format!("{} scenarios of three rounds of readings that satisfy the constraint exactly, through the connected terminals or the own slots", m)]
    }
    fn check(s: &Scenario) -> CheckResult {
        check(s)
    }
    fn valid(s: &Scenario) -> bool {
        let n = s.dev.terminals();
        s.time_base <= i64::MAX - 1_000_000 && dev_valid(&s.dev) && s.linked.len() == n && (1..=8).contains(&s.rounds.len()) && s.rounds.iter().all(|r| r.len() == n && r.iter().all(|f| f.own.iter().chain(f.partner.iter()).all(|(v, _)| v.iter().all(|x| dom::wide(*x)))))
    }
    fn extra_coverage() -> std::collections::BTreeMap<String, serde_json::Value> {
        let mut m = std::collections::BTreeMap::new();
        m.insert("max_observed_error_over_bound".into(), serde_json::json!(HEADROOM.get()));
        m.insert("tolerance".into(), "projections: |out - reference| <= 4 x running f32 error bound; one-sided propagation and recomputed branches: bitwise".into());
        m
    }
    fn assumptions() -> Vec<String> {
        vec![
            "the device is obliged to write only the terminals the statement names: both sides when both have data, the uninformed side of a one-sided inverter/gear update, every axle terminal once any has data, the distrusted branch / all three branches of a differential once every trusted branch has data".into(),
            "devices are heap-allocated and never moved while terminal references exist".into(),
        ]
    }
}
