//! Stream-under-test plumbing: the core (scripted inputs, `Sut`, `build`) lives in
//! shared/sutcore.rs so that the per-configuration `cfgrun` crate (C19) compiles the very same code;
//! this file adds the proptest strategies.
use crate::common::gen;
use proptest::prelude::*;
pub use crate::sutcore::*;

pub fn params_strategy() -> BoxedStrategy<Params> {
    (
        [gen::moderate(), gen::moderate(), gen::moderate()],
        gen::moderate(),
        0u8..3,
        gen::log_ns(1, 10_800_000_000_000),
        (-3i8..=3, -3i8..=3),
    )
        .prop_map(|(k, x, cmd_kind, window, unit)| Params { k, x, cmd_kind, window, unit })
        .boxed()
}

/// event strategy: weights present : absent : err1 : err2
pub fn ev_strategy(w: [u32; 4], dt: BoxedStrategy<i64>) -> BoxedStrategy<Ev> {
    ev_strategy_with(w, dt, gen::moderate())
}
pub fn ev_strategy_with(w: [u32; 4], dt: BoxedStrategy<i64>, value: BoxedStrategy<f32>) -> BoxedStrategy<Ev> {
    let mut opts: Vec<(u32, BoxedStrategy<Ev>)> = Vec::new();
    if w[0] > 0 {
        opts.push((w[0], (value, dt).prop_map(|(v, dt)| Ev::P(v, dt)).boxed()));
    }
    if w[1] > 0 {
        opts.push((w[1], Just(Ev::A).boxed()));
    }
    if w[2] > 0 {
        // error code 0 stands for Error::FromNone, the one error value rrtk itself creates
        opts.push((w[2], prop_oneof![3 => Just(Ev::E(1)), 1 => Just(Ev::E(0))].boxed()));
    }
    if w[3] > 0 {
        opts.push((w[3], Just(Ev::E(2)).boxed()));
    }
    proptest::strategy::Union::new_weighted(opts).boxed()
}
/// strictly positive sampling interval, log-uniform 1 us .. 3 h
pub fn dt_pos() -> BoxedStrategy<i64> {
    prop_oneof![7 => gen::log_ns(1_000, 10_800_000_000_000), 3 => gen::special_ns(1_000, 10_800_000_000_000)].boxed()
}
pub fn t0_strategy() -> BoxedStrategy<i64> {
    // zero, just below zero (histories that straddle t = 0), moderate, and far from zero in both directions
    // (a history spans at most 64 x 3 h = 7e14 ns, so these cannot overflow)
    prop_oneof![
        3 => Just(0i64),
        2 => -1_999i64..=0,
        3 => -1_000_000_000_000i64..1_000_000_000_000i64,
        1 => (0i64..2_000).prop_map(|d| i64::MIN + d),
        1 => (0i64..2_000).prop_map(|d| i64::MAX - 700_000_000_000_000 - d),
        1 => any::<i64>().prop_map(|t| t.clamp(i64::MIN, i64::MAX - 700_000_000_000_000)),
    ]
    .boxed()
}
