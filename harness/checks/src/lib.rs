//! Property checks for rrtk (C01..C20) as a library, so that the `rrtk-verif` binary and the libFuzzer
//! targets in /verif/fuzz drive the very same strategies and check functions.
#![allow(clippy::all)]
#![allow(dead_code)]
pub mod common;
pub mod rnum;
pub mod c01;
pub mod c02;
pub mod c03;
pub mod c04;
pub mod c05;
pub mod c08;
pub mod c09;
#[path = "../../shared/devs.rs"]
pub mod devs;
#[path = "../../shared/sutcore.rs"]
pub mod sutcore;
#[path = "../../shared/workload.rs"]
pub mod workload;
pub mod c10;
pub mod c11;
pub mod c12;
pub mod c13;
pub mod c14;
pub mod c15;
pub mod c16;
pub mod c17;
pub mod c18;
pub mod c19;
pub mod c20;
pub mod mp;
pub mod sut;
#[path = "../../shared/ref_interp.rs"]
pub mod ref_interp;
pub mod fuzz;
