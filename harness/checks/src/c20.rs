//! C20 — device wrappers relay data between getters/settables and terminals unaltered.
use crate::common::*;
use crate::devs::*;
use crate::ensure;
use crate::sut::Scripted;
use proptest::prelude::*;
use rrtk::devices::wrappers::*;
use rrtk::streams::control::CommandPID;
use rrtk::*;
use serde::{Deserialize, Serialize};
use std::cell::{Cell, RefCell};
use std::rc::Rc;

#[derive(Clone, Copy, Debug, Serialize, Deserialize, PartialEq)]
pub enum Which {
    Actuator,
    Encoder,
    Pid,
}
#[derive(Clone, Copy, Debug, Serialize, Deserialize, PartialEq)]
pub struct WRound {
    pub own_state: Option<[f32; 3]>,
    pub ext_state: Option<[f32; 3]>,
    pub own_cmd: Option<(u8, f32)>,
    pub ext_cmd: Option<(u8, f32)>,
    /// time advance before this round's writes (>= 0; 0 repeats a timestamp)
    pub dt: i64,
    /// encoder: 0 present, 1 absent, 2 error from get, 3 error from update, 4 Error::FromNone from get
    pub inner_get: u8,
    pub inner_value: [f32; 3],
    /// actuator / pid motor: accept the set? error from update?
    pub inner_accept: bool,
    pub inner_update_err: bool,
}
#[derive(Clone, Debug, Serialize, Deserialize)]
pub struct Scenario {
    pub which: Which,
    pub linked: bool,
    pub k: [f32; 3],
    pub init_time: i64,
    pub init_state: [f32; 3],
    pub init_cmd: (u8, f32),
    pub rounds: Vec<WRound>,
}

#[derive(Clone, Debug, PartialEq)]
enum Rec<S> {
    Set(S),
    Rejected(S),
    Update,
}
struct RecSettable<S: Clone> {
    data: SettableData<S, E>,
    log: Rc<RefCell<Vec<Rec<S>>>>,
    accept: Rc<Cell<bool>>,
    upd_err: Rc<Cell<bool>>,
}
impl<S: Clone> Settable<S, E> for RecSettable<S> {
    fn get_settable_data_ref(&self) -> &SettableData<S, E> {
        &self.data
    }
    fn get_settable_data_mut(&mut self) -> &mut SettableData<S, E> {
        &mut self.data
    }
    fn impl_set(&mut self, value: S) -> NothingOrError<E> {
        if self.accept.get() {
            self.log.borrow_mut().push(Rec::Set(value));
            Ok(())
        } else {
            self.log.borrow_mut().push(Rec::Rejected(value));
            Err(Error::Other(7))
        }
    }
}
impl<S: Clone> Updatable<E> for RecSettable<S> {
    fn update(&mut self) -> NothingOrError<E> {
        self.log.borrow_mut().push(Rec::Update);
        if self.upd_err.get() {
            return Err(Error::Other(8));
        }
        self.update_following_data()
    }
}
/// An encoder-like getter: what `get()` returns only changes when `update()` runs (it latches the pending reading), so a
/// wrapper that reads before it updates relays the previous round's value.
struct EncoderDouble {
    cur: Rc<RefCell<Output<State, E>>>,
    latched: RefCell<Output<State, E>>,
    upd_err: Rc<Cell<bool>>,
    updates: Rc<Cell<u32>>,
}
impl Getter<State, E> for EncoderDouble {
    fn get(&self) -> Output<State, E> {
        self.latched.borrow().clone()
    }
}
impl Updatable<E> for EncoderDouble {
    fn update(&mut self) -> NothingOrError<E> {
        self.updates.set(self.updates.get() + 1);
        if self.upd_err.get() {
            Err(Error::Other(8))
        } else {
            *self.latched.borrow_mut() = self.cur.borrow().clone();
            Ok(())
        }
    }
}
fn kvals(k: [f32; 3]) -> PositionDerivativeDependentPIDKValues {
    PositionDerivativeDependentPIDKValues::new(PIDKValues::new(k[0], k[1], k[2]), PIDKValues::new(k[1], k[2], k[0]), PIDKValues::new(k[2], k[0], k[1]))
}
fn f32_same_opt(a: &[Rec<f32>], b: &[Rec<f32>]) -> bool {
    a.len() == b.len()
        && a.iter().zip(b).all(|(x, y)| match (x, y) {
            (Rec::Set(p), Rec::Set(q)) | (Rec::Rejected(p), Rec::Rejected(q)) => same_f32(*p, *q),
            (Rec::Update, Rec::Update) => true,
            _ => false,
        })
}

/// what a terminal "currently sees", assembled from its separate state and command reads (not from the combined read under
/// test): both when present, stamped with the state's time when there is a state, else with the command's; nothing if neither
fn seen_at(term: Term) -> Option<Datum<TerminalData>> {
    let (st, cmd) = (read_state(term), read_command(term));
    let time = match (st, cmd) {
        (Some(s), _) => s.time,
        (None, Some(c)) => c.time,
        (None, None) => return None,
    };
    Some(Datum::new(time, TerminalData { time, command: cmd.map(|c| c.value), state: st.map(|s| s.value) }))
}
fn same_seen(a: &Option<Datum<TerminalData>>, b: &Option<Datum<TerminalData>>) -> bool {
    match (a, b) {
        (None, None) => true,
        (Some(x), Some(y)) => x.time == y.time && x.value.time == y.value.time && x.value.command == y.value.command && match (x.value.state, y.value.state) {
            (None, None) => true,
            (Some(p), Some(q)) => flat(p).iter().zip(flat(q).iter()).all(|(u, v)| same_f32(*u, *v)),
            _ => false,
        },
        _ => false,
    }
}
fn apply_writes(r: &WRound, t: i64, term: Term, ext: Option<Term>) {
    if let Some(v) = r.own_state {
        set_state(term, Datum::new(Time(t), st(v)));
    }
    if let (Some(v), Some(e)) = (r.ext_state, ext) {
        set_state(e, Datum::new(Time(t), st(v)));
    }
    if let Some((k, v)) = r.own_cmd {
        set_command(term, Datum::new(Time(t), Command::new(pd(k), v)));
    }
    if let (Some((k, v)), Some(e)) = (r.ext_cmd, ext) {
        set_command(e, Datum::new(Time(t), Command::new(pd(k), v)));
    }
}

pub fn check(s: &Scenario) -> CheckResult {
    let mut arena = Arena::new();
    let ext = if s.linked { Some(arena.terminal()) } else { None };
    let mut t = s.init_time;
    let mut data_rounds = 0;
    let mut nothing_round_after_data = false;
    let mut cmd_changes = 0;
    let mut sig: Vec<u64> = vec![s.which as u64];
    match s.which {
        Which::Actuator => {
            let log = Rc::new(RefCell::new(Vec::new()));
            let (accept, upd_err) = (Rc::new(Cell::new(true)), Rc::new(Cell::new(false)));
            let inner = RecSettable::<TerminalData> { data: SettableData::new(), log: log.clone(), accept: accept.clone(), upd_err: upd_err.clone() };
            let w: &'static mut ActuatorWrapper<'static, RecSettable<TerminalData>, E> = arena.alloc(ActuatorWrapper::new(inner));
            let term = w.get_terminal();
            if let Some(e) = ext {
                connect(term, e);
            }
            for (ri, r) in s.rounds.iter().enumerate() {
                t += r.dt.max(0);
                apply_writes(r, t, term, ext);
                accept.set(r.inner_accept);
                upd_err.set(r.inner_update_err);
                let seen = read_data(term);
                let expected_seen = seen_at(term);
                ensure!(same_seen(&seen, &expected_seen), "C20/Actuator/combined-read", "round {}: the terminal's combined read is {:?}, but its state read is {:?} and its command read {:?}", ri, seen, read_state(term), read_command(term));
                log.borrow_mut().clear();
                let ret = catch(|| w.update());
                ensure!(ret.is_ok(), "C20/Actuator/panic", "round {}: update panicked: {:?}", ri, ret);
                let ret = ret.unwrap();
                let mut want: Vec<Rec<TerminalData>> = Vec::new();
                let mut want_ret = Ok(());
                match seen {
                    Some(d) => {
                        data_rounds += 1;
                        if r.inner_accept {
                            want.push(Rec::Set(d.value));
                        } else {
                            want.push(Rec::Rejected(d.value));
                            want_ret = Err(Error::Other(7));
                        }
                    }
                    None => {}
                }
                if want_ret.is_ok() {
                    want.push(Rec::Update);
                    if r.inner_update_err {
                        want_ret = Err(Error::Other(8));
                    }
                }
                ensure!(*log.borrow() == want, "C20/Actuator/relay", "round {}: the terminal sees {:?}; the inner settable recorded {:?}, expected {:?}", ri, seen, log.borrow(), want);
                ensure!(ret == want_ret, "C20/Actuator/error-propagation", "round {}: update returned {:?}, expected {:?}", ri, ret, want_ret);
                sig.push(hash_of(&(seen.is_some(), r.inner_accept, r.inner_update_err)));
            }
        }
        Which::Encoder => {
            let cur = Rc::new(RefCell::new(Ok(None)));
            let (upd_err, updates) = (Rc::new(Cell::new(false)), Rc::new(Cell::new(0)));
            let inner = EncoderDouble { cur: cur.clone(), latched: RefCell::new(Ok(None)), upd_err: upd_err.clone(), updates: updates.clone() };
            let w: &'static mut GetterStateDeviceWrapper<'static, EncoderDouble, E> = arena.alloc(GetterStateDeviceWrapper::new(inner));
            let term = w.get_terminal();
            if let Some(e) = ext {
                connect(term, e);
            }
            for (ri, r) in s.rounds.iter().enumerate() {
                t += r.dt.max(0);
                apply_writes(r, t, term, ext);
                let datum = Datum::new(Time(t - 3), st(r.inner_value));
                *cur.borrow_mut() = match r.inner_get % 5 {
                    0 | 3 => Ok(Some(datum)),
                    1 => Ok(None),
                    2 => Err(Error::Other(5)),
                    _ => Err(Error::FromNone),
                };
                upd_err.set(r.inner_get % 5 == 3);
                let before = own_state(term);
                let before_cmd = own_command(term);
                let n0 = updates.get();
                let ret = catch(|| w.update());
                ensure!(ret.is_ok(), "C20/Encoder/panic", "round {}: update panicked: {:?}", ri, ret);
                let ret = ret.unwrap();
                let after = own_state(term);
                ensure!(updates.get() == n0 + 1, "C20/Encoder/inner-not-updated", "round {}: the inner getter was updated {} times", ri, updates.get() - n0);
                let same = |a: Option<Datum<State>>, b: Option<Datum<State>>| match (a, b) {
                    (None, None) => true,
                    (Some(x), Some(y)) => x.time == y.time && flat(x.value).iter().zip(flat(y.value).iter()).all(|(p, q)| bits_eq(*p, *q)),
                    _ => false,
                };
                match r.inner_get % 5 {
                    0 => {
                        data_rounds += 1;
                        ensure!(ret == Ok(()), "C20/Encoder/return", "round {}: update returned {:?}", ri, ret);
                        ensure!(same(after, Some(datum)), "C20/Encoder/relay", "round {}: the getter returned {:?}; the terminal's own state is {:?}", ri, datum, after);
                    }
                    1 => {
                        nothing_round_after_data |= data_rounds > 0;
                        ensure!(ret == Ok(()), "C20/Encoder/return", "round {}: update returned {:?}", ri, ret);
                        ensure!(same(after, before), "C20/Encoder/touched-when-absent", "round {}: the getter is absent but the terminal's own state changed {:?} -> {:?}", ri, before, after);
                    }
                    2 | 4 => {
                        let want = if r.inner_get % 5 == 2 { Error::Other(5) } else { Error::FromNone };
                        ensure!(ret == Err(want), "C20/Encoder/error-propagation", "round {}: the getter returns Err({:?}) but update returned {:?}", ri, want, ret);
                        ensure!(same(after, before), "C20/Encoder/touched-on-error", "round {}: the getter errs but the terminal's own state changed", ri);
                    }
                    _ => {
                        ensure!(ret == Err(Error::Other(8)), "C20/Encoder/error-propagation", "round {}: the getter's update returns Err(8) but update returned {:?}", ri, ret);
                        ensure!(same(after, before), "C20/Encoder/touched-on-error", "round {}: the getter's update errs but the terminal's own state changed", ri);
                    }
                }
                ensure!(own_command(term) == before_cmd, "C20/Encoder/command-touched", "round {}: the encoder wrapper changed the terminal's command slot", ri);
                sig.push(hash_of(&(r.inner_get % 5,)));
            }
        }
        Which::Pid => {
            let log = Rc::new(RefCell::new(Vec::new()));
            let (accept, upd_err) = (Rc::new(Cell::new(true)), Rc::new(Cell::new(false)));
            let inner = RecSettable::<f32> { data: SettableData::new(), log: log.clone(), accept: accept.clone(), upd_err: upd_err.clone() };
            let init_cmd = Command::new(pd(s.init_cmd.0), s.init_cmd.1);
            let w: &'static mut PIDWrapper<'static, RecSettable<f32>, E> = arena.alloc(PIDWrapper::new(inner, Time(s.init_time), st(s.init_state), init_cmd, kvals(s.k)));
            let term = w.get_terminal();
            if let Some(e) = ext {
                connect(term, e);
            }
            // the stand-alone controller
            let sa_state = rc_ref_cell_reference(Scripted::<State>::new());
            let mut sa = CommandPID::new(sa_state.clone(), init_cmd, kvals(s.k));
            let (mut eff_state, mut eff_cmd) = (st(s.init_state), init_cmd);
            for (ri, r) in s.rounds.iter().enumerate() {
                t += r.dt.max(0);
                apply_writes(r, t, term, ext);
                accept.set(r.inner_accept);
                upd_err.set(r.inner_update_err);
                let seen = read_data(term);
                ensure!(same_seen(&seen, &seen_at(term)), "C20/Pid/combined-read", "round {}: the terminal's combined read is {:?}, but its state read is {:?} and its command read {:?}", ri, seen, read_state(term), read_command(term));
                log.borrow_mut().clear();
                let ret = catch(|| w.update());
                ensure!(ret.is_ok(), "C20/Pid/panic", "round {}: update panicked: {:?}", ri, ret);
                let ret = ret.unwrap();
                if let Some(d) = seen {
                    data_rounds += 1;
                    if let Some(x) = d.value.state {
                        eff_state = x;
                    }
                    if let Some(c) = d.value.command {
                        if c != eff_cmd {
                            cmd_changes += 1;
                        }
                        eff_cmd = c;
                    }
                    sa_state.borrow_mut().cur = Ok(Some(Datum::new(d.value.time, eff_state)));
                    sa.set(eff_cmd).unwrap();
                    sa.update().unwrap();
                } else {
                    nothing_round_after_data |= data_rounds > 0;
                }
                let mut want: Vec<Rec<f32>> = vec![Rec::Update];
                let mut want_ret = Ok(());
                if r.inner_update_err {
                    want_ret = Err(Error::Other(8));
                } else if let Ok(Some(d)) = sa.get() {
                    if r.inner_accept {
                        want.push(Rec::Set(d.value));
                    } else {
                        want.push(Rec::Rejected(d.value));
                        want_ret = Err(Error::Other(7));
                    }
                }
                ensure!(f32_same_opt(&log.borrow(), &want), "C20/Pid/drive", "round {}: terminal sees {:?} (effective state {:?}, command {:?}); the motor recorded {:?}, a stand-alone CommandPID fed the same sequence gives {:?}", ri, seen, eff_state, eff_cmd, log.borrow(), want);
                ensure!(ret == want_ret, "C20/Pid/error-propagation", "round {}: update returned {:?}, expected {:?}", ri, ret, want_ret);
                sig.push(hash_of(&(seen.map(|d| (d.value.state.is_some(), d.value.command.is_some())), r.inner_accept, r.inner_update_err)));
            }
        }
    }
    let nontrivial = data_rounds >= 3 && (s.which != Which::Pid || (nothing_round_after_data && cmd_changes >= 1)) && (s.which == Which::Actuator || nothing_round_after_data);
    Ok(CaseInfo::new(nontrivial, hash_of(&sig)).class_if(data_rounds >= 3, ">= 3 rounds with data").class_if(nothing_round_after_data, "a nothing round after data").class_if(cmd_changes >= 1, "command change"))
}

fn wround() -> BoxedStrategy<WRound> {
    let triple = || [gen::mostly_moderate_any_finite(), gen::mostly_moderate_any_finite(), gen::mostly_moderate_any_finite()];
    (
        proptest::option::weighted(0.4, triple()),
        proptest::option::weighted(0.3, triple()),
        proptest::option::weighted(0.3, (0u8..3, gen::mostly_moderate_any_finite())),
        proptest::option::weighted(0.3, (0u8..3, gen::mostly_moderate_any_finite())),
        prop_oneof![1 => Just(0i64), 9 => gen::log_ns(1, 3_600_000_000_000)],
        prop_oneof![6 => Just(0u8), 2 => Just(1u8), 1 => Just(2u8), 1 => Just(3u8), 1 => Just(4u8)],
        triple(),
        proptest::bool::weighted(0.9),
        proptest::bool::weighted(0.1),
    )
        .prop_map(|(own_state, ext_state, own_cmd, ext_cmd, dt, inner_get, inner_value, inner_accept, inner_update_err)| WRound { own_state, ext_state, own_cmd, ext_cmd, dt, inner_get, inner_value, inner_accept, inner_update_err })
        .boxed()
}

pub struct C20;
impl Property for C20 {
    const ID: &'static str = "C20";
    const RULE: &'static str = "for each wrapper (actuator, encoder, PID) up to 32 rounds in which the wrapper's terminal (own slot and/or a connected external terminal) receives a new state, a new command, both or nothing at non-decreasing timestamps, the inner getter is present/absent/erroring (from get or from update), the inner settable accepts or rejects and its update succeeds or fails; PID wrapper with random gains and initial time/state/command. Oracle: recording test doubles - the actuator's settable must have received exactly the terminal's combined read taken just before the update (nothing if none) followed by one update, errors returned; the encoder's terminal own state must equal the getter's datum bit for bit (untouched when absent or erroring), inner updated once; the PID wrapper's motor must have received exactly what a stand-alone CommandPID returns when fed the same (time, effective state, effective command) sequence (NaN == NaN). Non-trivial = >= 3 rounds with data including a nothing round (and for the PID wrapper a command change); distinct = (wrapper, per-round pattern of what the terminal saw and how the inner object behaved).";
    type Scenario = Scenario;
    fn strategy(_tier: Tier) -> BoxedStrategy<Scenario> {
        (
            prop_oneof![Just(Which::Actuator), Just(Which::Encoder), Just(Which::Pid)],
            proptest::bool::weighted(0.7),
            [gen::wide(), gen::wide(), gen::wide()],
            prop_oneof![Just(0i64), -1_000_000_000_000i64..1_000_000_000_000],
            [gen::moderate(), gen::moderate(), gen::moderate()],
            (0u8..3, gen::moderate()),
            proptest::collection::vec(wround(), 1..=32),
        )
            .prop_map(|(which, linked, k, init_time, init_state, init_cmd, rounds)| Scenario { which, linked, k, init_time, init_state, init_cmd, rounds })
            .boxed()
    }
    fn cases(tier: Tier) -> u32 {
        tier.pick(20_000, 100_000)
    }
    fn check(s: &Scenario) -> CheckResult {
        check(s)
    }
    fn valid(s: &Scenario) -> bool {
        let fin3 = |v: &[f32; 3]| v.iter().all(|x| dom::finite(*x));
        s.k.iter().all(|x| dom::wide(*x)) && dom::t0(s.init_time) && s.init_state.iter().all(|x| dom::moderate(*x)) && dom::moderate(s.init_cmd.1) && (1..=32).contains(&s.rounds.len())
            && s.rounds.iter().all(|r| (0..=3_600_000_000_000).contains(&r.dt) && r.own_state.iter().chain(r.ext_state.iter()).all(fin3) && r.own_cmd.iter().chain(r.ext_cmd.iter()).all(|(_, v)| dom::finite(*v)) && fin3(&r.inner_value))
    }
    fn assumptions() -> Vec<String> {
        vec!["the inner motor of the PID wrapper forwards followed values in its update (update_following_data), as the Settable documentation requires of implementors".into(), "what the terminal 'currently sees' is its combined read just before the wrapper's update (terminal read semantics are C09's subject)".into()]
    }
}
