//! C06 / C07 — motion profile: accessor agreement at every instant, and validity of the trapezoid.
use crate::common::*;
use crate::ensure;
use crate::rnum::{Headroom, R, U};
use proptest::prelude::*;
use rrtk::*;
use serde::{Deserialize, Serialize};

#[derive(Clone, Copy, Debug, Serialize, Deserialize, PartialEq)]
pub struct Profile {
    pub start: [f32; 3],
    pub end: [f32; 3],
    pub max_vel: f32,
    pub max_acc: f32,
}
#[derive(Clone, Debug, Serialize, Deserialize)]
pub struct Scenario {
    pub prof: Profile,
    /// fractions in [0,1) placing three query points inside each phase
    pub fracs: [f32; 9],
    pub extra: Vec<i64>,
}
static HEADROOM: Headroom = Headroom::new();
static ARRIVAL_HEADROOM: Headroom = Headroom::new();
static SPEED_HEADROOM: Headroom = Headroom::new();

pub fn build(p: &Profile) -> Result<MotionProfile, String> {
    catch(|| MotionProfile::new(State::new_raw(p.start[0], p.start[1], p.start[2]), State::new_raw(p.end[0], p.end[1], p.end[2]), Quantity::new(p.max_vel, MILLIMETER_PER_SECOND), Quantity::new(p.max_acc, MILLIMETER_PER_SECOND_SQUARED)))
}
fn rank(p: MotionProfilePiece) -> u8 {
    match p {
        MotionProfilePiece::BeforeStart => 0,
        MotionProfilePiece::InitialAcceleration => 1,
        MotionProfilePiece::ConstantVelocity => 2,
        MotionProfilePiece::EndAcceleration => 3,
        MotionProfilePiece::Complete => 4,
    }
}
/// smallest t in [0, i64::MAX] with rank(piece(t)) >= r (premise: piece is monotone, checked separately)
fn boundary(mp: &MotionProfile, r: u8) -> i64 {
    let (mut lo, mut hi) = (0i64, i64::MAX);
    if rank(mp.get_piece(Time(lo))) >= r {
        return 0;
    }
    // invariant: rank(lo) < r; hi is the answer candidate (rank(i64::MAX) == 4 >= r for r <= 4 unless t3 is i64::MAX)
    while hi - lo > 1 {
        let mid = lo + (hi - lo) / 2;
        if rank(mp.get_piece(Time(mid))) >= r {
            hi = mid;
        } else {
            lo = mid;
        }
    }
    hi
}
fn debug_boundaries(mp: &MotionProfile) -> Option<(i64, i64, i64)> {
    let text = format!("{:?}", mp);
    let field = |name: &str| -> Option<i64> {
        let at = text.find(&format!("{}: Time(", name))? + name.len() + 7;
        let rest = &text[at..];
        rest[..rest.find(')')?].trim().parse::<i64>().ok()
    };
    Some((field("t1")?, field("t2")?, field("t3")?))
}
pub fn recover(mp: &MotionProfile) -> (i64, i64, i64) {
    (boundary(mp, 2), boundary(mp, 3), boundary(mp, 4))
}
fn end_kind(p: &Profile) -> u8 {
    if p.end[2] != 0.0 {
        2
    } else if p.end[1] != 0.0 {
        1
    } else {
        0
    }
}
fn pd(k: u8) -> PositionDerivative {
    match k {
        0 => PositionDerivative::Position,
        1 => PositionDerivative::Velocity,
        _ => PositionDerivative::Acceleration,
    }
}
fn query_times(s: &Scenario, t1: i64, t2: i64, t3: i64) -> Vec<i64> {
    let mut v = vec![i64::MIN, i64::MIN + 1, -1_000_000_000, -1, 0, 1, i64::MAX - 1, i64::MAX];
    for b in [t1, t2, t3] {
        for d in [-1i64, 0, 1] {
            v.push(b.saturating_add(d));
        }
    }
    let phases = [(0, t1), (t1, t2), (t2, t3)];
    for (pi, (a, b)) in phases.iter().enumerate() {
        if b > a {
            for j in 0..3 {
                let f = s.fracs[pi * 3 + j].clamp(0.0, 0.999_999) as f64;
                v.push(a + ((b - a) as f64 * f) as i64);
            }
        }
    }
    v.push(t3.saturating_add(1_000_000_000));
    v.extend(s.extra.iter().copied());
    v.sort();
    v.dedup();
    v
}

// ------------------------------------------------------------------------------------------------
// C06
// ------------------------------------------------------------------------------------------------
pub fn check06(s: &Scenario) -> CheckResult {
    let p = &s.prof;
    // a state with a NaN position or velocity is a state like any other: the constructor panics or returns ordered boundaries
    {
        let mut q = p.clone();
        match (s.fracs[0].to_bits() >> 3) % 4 {
            0 => q.start[0] = f32::NAN,
            1 => q.start[1] = f32::NAN,
            2 => q.end[0] = f32::NAN,
            _ => q.end[1] = f32::NAN,
        }
        if let Ok(accepted) = build(&q) {
            if let Some((d1, d2, d3)) = debug_boundaries(&accepted) {
                ensure!(0 <= d1 && d1 <= d2 && d2 <= d3, "C06/boundaries-order", "the constructor accepted a profile with a NaN component and returned boundaries (as printed by its Debug impl) t1={} t2={} t3={}: not 0 <= t1 <= t2 <= t3; profile {:?}", d1, d2, d3, q);
            }
        }
    }
    let mp = match build(p) {
        Ok(mp) => mp,
        Err(_) => return Ok(CaseInfo::new(false, 0).class("constructor panicked (legal)")),
    };
    let (t1, t2, t3) = recover(&mp);
    ensure!(0 <= t1 && t1 <= t2 && t2 <= t3, "C06/boundaries-order", "recovered boundaries t1={} t2={} t3={} are not ordered", t1, t2, t3);
    // the boundaries are private, but the derived Debug output prints them: a second, direct observation (skipped if the
    // format ever stops naming fields t1, t2, t3). Bisection alone cannot see t2 < t1: the piece t2 bounds just never occurs.
    let dbg = debug_boundaries(&mp);
    if let Some((d1, d2, d3)) = dbg {
        ensure!(0 <= d1 && d1 <= d2 && d2 <= d3, "C06/boundaries-order", "the constructor returned a profile whose boundaries (as printed by its Debug impl) are t1={} t2={} t3={}: not 0 <= t1 <= t2 <= t3; profile {:?}", d1, d2, d3, p);
    }
    let ek = end_kind(p);
    let end_cmd = Command::from(State::new_raw(p.end[0], p.end[1], p.end[2]));
    ensure!(PositionDerivative::from(end_cmd) == pd(ek), "C06/end-kind", "end command kind {:?} for end state {:?}", end_cmd, p.end);
    let times = query_times(s, t1, t2, t3);
    let mut prev_rank = 0u8;
    for &t in &times {
        let tt = Time(t);
        let piece = mp.get_piece(tt);
        let r = rank(piece);
        ensure!(r >= prev_rank, "C06/piece-goes-back", "piece at t={} is {:?} after a later piece was seen at an earlier time", t, piece);
        prev_rank = r;
        // the recovered boundaries describe the piece at every sampled instant
        let want_rank = if t < 0 { 0 } else if t < t1 { 1 } else if t < t2 { 2 } else if t < t3 { 3 } else { 4 };
        ensure!(r == want_rank, "C06/piece", "piece at t={} is {:?}, boundaries (0,{},{},{}) imply rank {}", t, piece, t1, t2, t3, want_rank);
        let mode = mp.get_mode(tt);
        let acc = mp.get_acceleration(tt);
        let vel = mp.get_velocity(tt);
        let pos = mp.get_position(tt);
        let hist = <MotionProfile as History<Command, u8>>::get(&mp, tt);
        if t < 0 {
            ensure!(piece == MotionProfilePiece::BeforeStart && mode.is_none() && acc.is_none() && vel.is_none() && pos.is_none() && hist.is_none(), "C06/before-start", "t={} < 0: piece {:?} mode {:?} acc {:?} vel {:?} pos {:?} history {:?}", t, piece, mode, acc, vel, pos, hist);
            continue;
        }
        ensure!(piece != MotionProfilePiece::BeforeStart, "C06/before-start-late", "t={} >= 0 but piece is BeforeStart", t);
        ensure!(acc.is_some() && mode.is_some() && hist.is_some(), "C06/absent-during-move", "t={} >= 0: mode {:?} acc {:?} history {:?}", t, mode, acc, hist);
        let want_mode = match r {
            1 | 3 => PositionDerivative::Acceleration,
            2 => PositionDerivative::Velocity,
            _ => pd(ek),
        };
        ensure!(mode == Some(want_mode), "C06/mode", "t={} piece {:?}: mode {:?}, expected {:?}", t, piece, mode, want_mode);
        // piece <-> PositionDerivative conversion agrees
        ensure!(PositionDerivative::try_from(piece).ok() == if r == 4 { None } else { Some(want_mode) }, "C06/piece-to-mode", "PositionDerivative::try_from({:?}) disagrees with the mode table", piece);
        let unit_of_piece = Unit::try_from(piece).ok();
        ensure!(unit_of_piece == if r == 4 { None } else { Some(Unit::from(want_mode)) }, "C06/piece-to-unit", "Unit::try_from({:?}) = {:?}, the piece's mode is {:?}", piece, unit_of_piece, if r == 4 { None } else { Some(want_mode) });
        if r < 4 {
            ensure!(vel.is_some() && pos.is_some(), "C06/absent-during-move", "t={} during the move: vel {:?} pos {:?}", t, vel, pos);
        } else {
            let (want_vel, want_pos) = match ek {
                0 => (Some(0.0f32), Some(p.end[0])),
                1 => (Some(p.end[1]), None),
                _ => (None, None),
            };
            ensure!(vel.map(|q| q.value.to_bits()) == want_vel.map(f32::to_bits) && pos.map(|q| q.value.to_bits()) == want_pos.map(f32::to_bits), "C06/after-completion", "t={} complete, end command {:?}: vel {:?} pos {:?}", t, end_cmd, vel, pos);
            let want_acc = if ek == 2 { p.end[2] } else { 0.0 };
            ensure!(bits_eq(acc.unwrap().value, want_acc), "C06/after-completion-acc", "t={} complete: acceleration {:?}, end command {:?}", t, acc, end_cmd);
        }
        if let Some(q) = vel {
            ensure!(q.unit == MILLIMETER_PER_SECOND, "C06/unit", "velocity unit {:?}", q.unit);
        }
        if let Some(q) = pos {
            ensure!(q.unit == MILLIMETER, "C06/unit", "position unit {:?}", q.unit);
        }
        ensure!(acc.unwrap().unit == MILLIMETER_PER_SECOND_SQUARED, "C06/unit", "acceleration unit {:?}", acc.unwrap().unit);
        // history: stamped t, exactly that mode, value bit-identical to the matching accessor
        let h = hist.unwrap();
        ensure!(h.time == tt, "C06/history-time", "history at t={} stamped {:?}", t, h.time);
        let matching = match want_mode {
            PositionDerivative::Position => pos,
            PositionDerivative::Velocity => vel,
            PositionDerivative::Acceleration => acc,
        };
        ensure!(matching.is_some(), "C06/matching-accessor-absent", "t={} mode {:?} but the matching accessor is absent", t, want_mode);
        ensure!(PositionDerivative::from(h.value) == want_mode && f32::from(h.value).to_bits() == matching.unwrap().value.to_bits(), "C06/history-value", "t={}: history returns {:?}, mode {:?} with accessor value {:?}", t, h.value, want_mode, matching);
        if r == 4 {
            ensure!(PositionDerivative::from(h.value) == PositionDerivative::from(end_cmd) && bits_eq(f32::from(h.value), f32::from(end_cmd)), "C06/end-command", "t={} >= t3: history returns {:?}, the end state's lowest non-zero derivative is {:?}", t, h.value, end_cmd);
        }
    }
    let all_phases = t1 > 0 && t2 > t1 && t3 > t2;
    Ok(CaseInfo::new(all_phases || ek != 0, hash_of(&(p.start.map(f32::to_bits), p.end.map(f32::to_bits), p.max_vel.to_bits(), p.max_acc.to_bits())))
        .class("constructor accepted")
        .class_if(all_phases, "all three phases non-empty")
        .class_if(ek == 1, "velocity end command")
        .class_if(ek == 2, "acceleration end command")
        .class_if(t3 == 0, "zero-length move")
        .class_if(dbg.is_some(), "boundaries also read from the Debug output"))
}

// ------------------------------------------------------------------------------------------------
// C07
// ------------------------------------------------------------------------------------------------
/// seconds of an ns value that the code may have truncated by up to 1 ns
fn secs_trunc(ns: f64) -> R {
    let v = ns / 1e9;
    R { v, e: 2.0 * U * v.abs() + 1.0e-9 + 1e-45 }
}
/// reference velocity and position at time t (0 <= t < t3) with the recovered integer boundaries
fn reference(p: &Profile, a_s: f32, t1: i64, t2: i64, t: i64) -> (R, R) {
    let (p0, v0, a) = (R::exact(p.start[0]), R::exact(p.start[1]), R::exact(a_s));
    let half = R::c(0.5);
    if t < t1 {
        let ts = R::secs(t);
        (a * ts + v0, half * a * ts * ts + v0 * ts + p0)
    } else if t < t2 {
        let inner = secs_trunc(-(t1 as f64) / 2.0 + t as f64);
        (a * R::secs(t1) + v0, a * (R::secs(t1) * inner) + v0 * R::secs(t) + p0)
    } else {
        let inner = secs_trunc(-(t1 as f64) / 2.0 + t2 as f64);
        let vel = a * R::secs(t1 + t2 - t) + v0;
        let pos = a * (R::secs(t1) * inner) - half * a * (R::secs(t - t2) * R::secs(t - 2 * t1 - t2)) + v0 * R::secs(t) + p0;
        (vel, pos)
    }
}
/// f64 accel + decel distance of the requested move
fn ramp_distance(p: &Profile) -> f64 {
    let (v, a) = (p.max_vel.abs() as f64, p.max_acc.abs() as f64);
    let (v0, v1) = (p.start[1] as f64, p.end[1] as f64);
    ((v * v - v0 * v0) + (v * v - v1 * v1)) / (2.0 * a)
}

pub fn check07(s: &Scenario) -> CheckResult {
    let p = &s.prof;
    let disp = p.end[0] as f64 - p.start[0] as f64;
    let vlim = p.max_vel.abs();
    let inside = p.start[1].abs() <= vlim && p.end[1].abs() <= vlim;
    let comfortable = inside && disp.abs() >= 1.001 * ramp_distance(p) + 1e-3;
    let mp = match build(p) {
        Ok(mp) => mp,
        Err(m) => {
            ensure!(!comfortable, "C07/comfortable-move-rejected", "the constructor panicked ({}) although the displacement {:e} comfortably exceeds the acceleration + deceleration distance {:e} and both speeds are inside the limit: {:?}", m, disp, ramp_distance(p), p);
            return Ok(CaseInfo::new(false, 0).class("constructor panicked (legal)"));
        }
    };
    let (t1, t2, t3) = recover(&mp);
    let sign: f32 = if p.end[0] < p.start[0] { -1.0 } else { 1.0 };
    let a_s = p.max_acc.abs() * sign;
    let times: Vec<i64> = query_times(s, t1, t2, t3).into_iter().filter(|&t| t >= 0 && t < t3).collect();
    let vmax = vlim.max(p.start[1].abs()).max(p.end[1].abs()) as f64;
    let mut interior = [false; 3];
    for &t in &times {
        let tt = Time(t);
        let (acc, vel, pos) = (mp.get_acceleration(tt).unwrap().value, mp.get_velocity(tt).unwrap().value, mp.get_position(tt).unwrap().value);
        let want_acc = if t < t1 { a_s } else if t < t2 { 0.0 } else { -a_s };
        ensure!(same_f32(acc, want_acc), "C07/acceleration", "t={} (boundaries {},{},{}): acceleration {:e}, expected {:e} (+-max_acc with the sign of the displacement, or 0)", t, t1, t2, t3, acc, want_acc);
        let (rv, rp) = reference(p, a_s, t1, t2, t);
        HEADROOM.observe(rv.ratio(vel));
        HEADROOM.observe(rp.ratio(pos));
        ensure!(rv.admits(vel, 4.0, 0.0), "C07/velocity", "t={} (boundaries {},{},{}): velocity {:e}, reference trapezoid {:e} (allowed deviation {:e}); profile {:?}", t, t1, t2, t3, vel, rv.v, 4.0 * rv.e, p);
        ensure!(rp.admits(pos, 4.0, 0.0), "C07/position", "t={} (boundaries {},{},{}): position {:e}, integral of the reference velocity {:e} (allowed deviation {:e}); profile {:?}", t, t1, t2, t3, pos, rp.v, 4.0 * rp.e, p);
        // the boundaries are f32 seconds truncated to ns, so the ramps may be off by eps*T3 in time, i.e.
        // eps*|A|*T3 in speed: "a rounding tolerance proportional to f32 epsilon times the magnitudes involved"
        // ... and each of the three boundaries is additionally truncated to a whole nanosecond (the crate's time
        // resolution, C18's "1 ns of truncation"), which shifts a ramp by up to |A|*1 ns in speed per boundary; for
        // moves of well under a millisecond that term dominates the f32 one (same term as in the arrival clause below)
        let speed_tol = 4.0 * rv.e + (a_s.abs() as f64) * 3e-9 + 16.0 * U * (vmax + (a_s.abs() as f64) * (t3 as f64 / 1e9));
        SPEED_HEADROOM.observe(((vel.abs() as f64) - vmax).max(0.0) / speed_tol);
        ensure!((vel.abs() as f64) <= vmax + speed_tol, "C07/speed-limit", "t={}: |velocity| {:e} exceeds the largest of max_vel and the start/end speeds {:e} by more than the rounding tolerance {:e}", t, vel.abs(), vmax, speed_tol);
        if t == 0 {
            ensure!(same_f32(vel, p.start[1]) && same_f32(pos, p.start[0]), "C07/start", "at t=0 velocity {:e} position {:e}, start state {:?}", vel, pos, p.start);
        }
        let ph = if t < t1 { 0 } else if t < t2 { 1 } else { 2 };
        let (a, b) = [(0, t1), (t1, t2), (t2, t3)][ph];
        if t > a && t < b - 1 {
            interior[ph] = true;
        }
    }
    // continuity across boundaries: both sides are within 4e of one continuous reference (checked
    // above at b-1 and b); arrival at completion:
    if t3 > 0 {
        let t = t3 - 1;
        let tt = Time(t);
        let (vel, pos) = (mp.get_velocity(tt).unwrap().value as f64, mp.get_position(tt).unwrap().value as f64);
        let (rv, rp) = reference(p, a_s, t1, t2, t);
        let t3s = t3 as f64 / 1e9;
        let a = a_s.abs() as f64;
        let tol_v = 4.0 * rv.e + a * 3e-9 + 16.0 * U * (vmax + a * t3s);
        let tol_p = 4.0 * rp.e + a * 3e-9 * t3s + vmax * 3e-9 + 16.0 * U * (p.start[0].abs() as f64 + p.end[0].abs() as f64 + vmax * t3s);
        ARRIVAL_HEADROOM.observe((vel - p.end[1] as f64).abs() / tol_v);
        ARRIVAL_HEADROOM.observe((pos - p.end[0] as f64).abs() / tol_p);
        ensure!((vel - p.end[1] as f64).abs() <= tol_v, "C07/arrival-velocity", "just before completion (t={}): velocity {:e}, requested end velocity {:e} (tolerance {:e}); profile {:?}", t, vel, p.end[1], tol_v, p);
        ensure!((pos - p.end[0] as f64).abs() <= tol_p, "C07/arrival-position", "just before completion (t={}): position {:e}, requested end position {:e} (tolerance {:e}); profile {:?}", t, pos, p.end[0], tol_p, p);
    }
    // at completion itself (t = t3, and long after): whatever the profile still reports is the requested end state, exactly;
    // a component may only be absent when a higher non-zero derivative of the end state leaves it open
    for t in [t3, t3.saturating_add(1_000_000_000)] {
        let tt = Time(t);
        let (vel, pos) = (mp.get_velocity(tt), mp.get_position(tt));
        match vel {
            Some(v) => ensure!(same_f32(v.value, p.end[1]), "C07/completion-velocity", "at completion (t={}, t3={}): velocity {:e}, requested end velocity {:e}; profile {:?}", t, t3, v.value, p.end[1], p),
            None => ensure!(p.end[2] != 0.0, "C07/completion-velocity", "at completion (t={}): velocity absent although the end state has zero acceleration; profile {:?}", t, p),
        }
        match pos {
            Some(x) => ensure!(same_f32(x.value, p.end[0]), "C07/completion-position", "at completion (t={}, t3={}): position {:e}, requested end position {:e}; profile {:?}", t, t3, x.value, p.end[0], p),
            None => ensure!(p.end[1] != 0.0 || p.end[2] != 0.0, "C07/completion-position", "at completion (t={}): position absent although the end state is at rest; profile {:?}", t, p),
        }
    }
    // mirror relation, exact
    if p.start[0] != p.end[0] {
        let m = Profile { start: p.start.map(|x| -x), end: p.end.map(|x| -x), max_vel: p.max_vel, max_acc: p.max_acc };
        let mm = build(&m);
        ensure!(mm.is_ok(), "C07/mirror-rejected", "the mirrored profile is rejected: {:?}", mm.err());
        let mm = mm.unwrap();
        let (m1, m2, m3) = recover(&mm);
        ensure!((m1, m2, m3) == (t1, t2, t3), "C07/mirror-boundaries", "mirrored profile has boundaries {:?}, original {:?}", (m1, m2, m3), (t1, t2, t3));
        for &t in &times {
            let tt = Time(t);
            let neg = |a: Option<Quantity>, b: Option<Quantity>| match (a, b) {
                (Some(x), Some(y)) => same_f32(x.value, -y.value),
                (None, None) => true,
                _ => false,
            };
            ensure!(neg(mp.get_acceleration(tt), mm.get_acceleration(tt)) && neg(mp.get_velocity(tt), mm.get_velocity(tt)) && neg(mp.get_position(tt), mm.get_position(tt)), "C07/mirror-values", "t={}: mirrored profile is not the exact negation: ({:?},{:?},{:?}) vs ({:?},{:?},{:?})", t, mp.get_acceleration(tt), mp.get_velocity(tt), mp.get_position(tt), mm.get_acceleration(tt), mm.get_velocity(tt), mm.get_position(tt));
        }
    }
    let nontrivial = t1 > 0 && t2 > t1 && t3 > t2 && interior.iter().all(|x| *x);
    Ok(CaseInfo::new(nontrivial, hash_of(&(p.start.map(f32::to_bits), p.end.map(f32::to_bits), p.max_vel.to_bits(), p.max_acc.to_bits())))
        .class("constructor accepted")
        .class_if(comfortable, "comfortable move (must be accepted)")
        .class_if(sign < 0.0, "negative displacement")
        .class_if(p.start[1] * sign < 0.0, "start velocity against the direction of travel"))
}

// ------------------------------------------------------------------------------------------------
// generators
// ------------------------------------------------------------------------------------------------
fn log_uniform(lo: f64, hi: f64) -> BoxedStrategy<f64> {
    (lo.ln()..=hi.ln()).prop_map(|x| x.exp()).boxed()
}
/// end (and start) derivatives: zero, moderate, or non-zero but tiny (below f32::EPSILON, down to subnormal) - "lowest non-zero
/// derivative" means non-zero, not "noticeably large"
fn deriv() -> BoxedStrategy<f32> {
    prop_oneof![6 => Just(0.0f32), 3 => gen::moderate(), 1 => proptest::sample::select(vec![1.0e-8f32, -1.0e-8, 5.0e-8, -1.0e-7, 1.1e-7, 1.0e-20, -1.0e-30, f32::MIN_POSITIVE, 1.0e-40, -1.0e-44])].boxed()
}
fn speed_fraction() -> BoxedStrategy<f64> {
    prop_oneof![3 => Just(0.0f64), 1 => Just(1.0f64), 1 => Just(-1.0f64), 6 => -1.0f64..=1.0].boxed()
}
/// profiles built to be accepted: displacement = direction * (ramp distance * (1 + margin) + cruise)
fn accepted_profile() -> BoxedStrategy<Profile> {
    (log_uniform(1e-2, 1e3), 0.0f64..=1.0, speed_fraction(), speed_fraction(), any::<bool>(), -1000.0f64..1000.0, prop_oneof![1 => Just(0.0f64), 4 => 0.0f64..=1.0], deriv(), deriv(), proptest::option::weighted(0.04, proptest::sample::select(vec![1.0e-8f32, -5.0e-8, 1.0e-7, 1.0e-30, -1.0e-40])))
        .prop_map(|(a, vf, f0, f1, neg, p0, cruise, a0, a1, tiny_v1)| {
            let vmax_allowed = (2.0 * a * 3.5e3f64).sqrt().min(1e3);
            let v = (1e-2f64.ln() + vf * (vmax_allowed.max(1.0e-2).ln() - 1e-2f64.ln())).exp();
            let (v, a32) = (v as f32, a as f32);
            let dir = if neg { -1.0f64 } else { 1.0 };
            let (v0, v1) = ((v as f64 * f0) as f32, tiny_v1.unwrap_or((v as f64 * f1) as f32));
            let p = Profile { start: [p0 as f32, v0, a0], end: [0.0, v1, a1], max_vel: v, max_acc: a32 };
            let ramp = ramp_distance(&p);
            let room = (9.0e3 - ramp - p0.abs()).max(0.0);
            let d = ramp * 1.002 + 2e-3 + cruise * room;
            let p1 = (p0 as f32) as f64 + dir * d;
            Profile { end: [p1 as f32, v1, a1], ..p }
        })
        .boxed()
}
fn free_profile() -> BoxedStrategy<Profile> {
    let st = || (-1.0e4f32..1.0e4, prop_oneof![1 => Just(0.0f32), 2 => -1.0e3f32..1.0e3], prop_oneof![2 => Just(0.0f32), 1 => gen::moderate()]);
    (st(), st(), log_uniform(1e-2, 1e3), log_uniform(1e-2, 1e3), any::<bool>(), any::<bool>())
        .prop_map(|(s, e, v, a, nv, na)| Profile { start: [s.0, s.1, s.2], end: [e.0, e.1, e.2], max_vel: if nv { -(v as f32) } else { v as f32 }, max_acc: if na { -(a as f32) } else { a as f32 } })
        .boxed()
}
/// displacement close to the ramp distance: the accept/reject edge
fn edge_profile() -> BoxedStrategy<Profile> {
    (accepted_profile(), -0.01f64..0.01).prop_map(|(p, eps)| {
        let dir = if p.end[0] < p.start[0] { -1.0 } else { 1.0 };
        let d = ramp_distance(&p) * (1.0 + eps);
        Profile { end: [(p.start[0] as f64 + dir * d) as f32, p.end[1], p.end[2]], ..p }
    })
    .boxed()
}
/// the input domain of C06 / C07 for externally supplied scenarios (fuzzer): positions within +-1e4, speeds within +-1e3,
/// end/start accelerations moderate, limits 1e-2..1e3 in magnitude, placement fractions in [0,1), a few extra query times
pub fn scenario_valid(s: &Scenario) -> bool {
    let p = &s.prof;
    let st = |x: &[f32; 3]| x[0].is_finite() && x[0].abs() <= 1.0e4 && x[1].is_finite() && x[1].abs() <= 1.0e3 && x[2].is_finite() && x[2].abs() <= 1.0e4;
    let lim = |x: f32| x.is_finite() && (1.0e-2..=1.0e3).contains(&x.abs());
    st(&p.start) && st(&p.end) && lim(p.max_vel) && lim(p.max_acc) && s.fracs.iter().all(|f| (0.0..1.0).contains(f)) && s.extra.len() <= 8
}
pub fn scenario_strategy() -> BoxedStrategy<Scenario> {
    let prof = prop_oneof![7 => accepted_profile(), 2 => free_profile(), 1 => edge_profile()];
    (prof, proptest::array::uniform9(0.0f32..1.0), proptest::collection::vec(prop_oneof![any::<i64>(), 0i64..2_000_000_000_000], 0..4)).prop_map(|(prof, fracs, extra)| Scenario { prof, fracs, extra }).boxed()
}
fn fixed_profiles() -> Vec<Profile> {
    // the shapes the repository's own tests use, plus degenerate ones
    let mk = |s: [f32; 3], e: [f32; 3], v: f32, a: f32| Profile { start: s, end: e, max_vel: v, max_acc: a };
    vec![
        mk([0.0, 0.0, 0.0], [3.0, 0.0, 0.0], 0.1, 0.01),
        mk([1.0, 0.0, 0.0], [3.0, 0.0, 0.0], 0.1, 0.01),
        mk([0.0, 0.1, 0.0], [3.0, 0.0, 0.0], 0.1, 0.01),
        mk([0.0, 0.0, 0.01], [3.0, 0.0, 0.0], 0.1, 0.01),
        mk([0.0, 0.0, 0.0], [6.0, 0.0, 0.0], 0.2, 0.01),
        mk([0.0, 0.0, 0.0], [-3.0, 0.0, 0.0], 0.1, 0.01),
        mk([0.0, 0.0, 0.0], [3.0, 0.05, 0.0], 0.1, 0.01),
        mk([0.0, 0.0, 0.0], [3.0, 0.0, 0.02], 0.1, 0.01),
        mk([0.0, 0.1, 0.0], [0.0, 0.1, 0.0], 0.1, 0.01),
        mk([5.0, 0.0, 0.0], [5.0, 0.0, 0.0], 1.0, 1.0),
        mk([0.0, -0.1, 0.0], [3.0, 0.0, 0.0], 0.1, 0.01),
        mk([0.0, 0.0, 0.0], [3.0, 0.0, 0.0], -0.1, -0.01),
    ]
}

pub struct C06;
impl Property for C06 {
    const ID: &'static str = "C06";
    const RULE: &'static str = "profiles: 70% constructed to be accepted (limits log-uniform in [1e-2,1e3], start/end speeds inside the limit incl. 0 and +-limit, displacement = ramp distance x 1.002 + cruise, positions within +-1e4), 20% unconstrained in the same ranges, 10% on the accept/reject edge; end states with zero/non-zero velocity and acceleration so all three end-command kinds occur; 12 fixed profiles. Query times per profile: i64::MIN, MIN+1, -1 s, -1, 0, 1, each recovered boundary -1/0/+1 ns, three random points inside each phase, t3+1 s, i64::MAX-1, i64::MAX, random extras. t1..t3 are recovered from get_piece by bisection; monotone piece order is asserted on the sorted query times. Oracle: the accessor-agreement tables of the statement, history value bit-identical to the matching accessor. A constructor panic is a legal outcome and counted. Non-trivial = accepted profile with all three phases non-empty or a non-position end command; distinct = profile parameters.";
    type Scenario = Scenario;
    fn strategy(_tier: Tier) -> BoxedStrategy<Scenario> {
        scenario_strategy()
    }
    fn cases(tier: Tier) -> u32 {
        tier.pick(100_000, 1_200_000)
    }
    fn exhaustive(_tier: Tier, sink: &mut dyn FnMut(Scenario)) -> Vec<String> {
        for p in fixed_profiles() {
            sink(Scenario { prof: p, fracs: [0.1, 0.5, 0.9, 0.2, 0.5, 0.8, 0.3, 0.6, 0.99], extra: vec![] });
        }
        vec![]
    }
    fn check(s: &Scenario) -> CheckResult {
        check06(s)
    }
    fn valid(s: &Scenario) -> bool {
        scenario_valid(s)
    }
    fn assumptions() -> Vec<String> {
        vec!["t1..t3 are private; they are recovered by bisection on get_piece, whose monotonicity is itself asserted on every sampled time sequence".into()]
    }
}
pub struct C07;
impl Property for C07 {
    const ID: &'static str = "C07";
    const RULE: &'static str = "same profile generator as C06 (accepted profiles contribute; rejections are counted and must not be 'comfortable'); query times in [0, t3) incl. both sides of each boundary and three interior points per phase. Oracle: reference trapezoid from the inputs and the recovered integer boundaries, evaluated in f64 with a running f32 error bound (|out - ref| <= 4e; +1 ns for the documented integer halving), acceleration exactly +-max_acc*sign or 0, speed limit, exact start values, arrival within 4e + ns-truncation terms + 16u(|p0|+|p1|+vmax*T3), exact mirror symmetry, must-accept for displacement >= 1.001 x ramp distance + 1e-3 with speeds inside the limit. Non-trivial = accepted, all three phases non-empty and an interior query point in each; distinct = profile parameters.";
    type Scenario = Scenario;
    fn strategy(_tier: Tier) -> BoxedStrategy<Scenario> {
        scenario_strategy()
    }
    fn cases(tier: Tier) -> u32 {
        tier.pick(100_000, 1_000_000)
    }
    fn exhaustive(_tier: Tier, sink: &mut dyn FnMut(Scenario)) -> Vec<String> {
        for p in fixed_profiles() {
            sink(Scenario { prof: p, fracs: [0.1, 0.5, 0.9, 0.2, 0.5, 0.8, 0.3, 0.6, 0.99], extra: vec![] });
        }
        vec![]
    }
    fn check(s: &Scenario) -> CheckResult {
        check07(s)
    }
    fn valid(s: &Scenario) -> bool {
        scenario_valid(s)
    }
    fn extra_coverage() -> std::collections::BTreeMap<String, serde_json::Value> {
        let mut m = std::collections::BTreeMap::new();
        m.insert("max_observed_error_over_bound".into(), serde_json::json!(HEADROOM.get()));
        m.insert("max_observed_arrival_error_over_tolerance".into(), serde_json::json!(ARRIVAL_HEADROOM.get()));
        m.insert("max_observed_speed_excess_over_tolerance".into(), serde_json::json!(SPEED_HEADROOM.get()));
        m.insert("tolerance".into(), "closed forms: |out - reference| <= 4 x running f32 error bound; arrival: 4e + |A|*3ns*T3 + vmax*3ns + 16u(|p0|+|p1|+vmax*T3)".into());
        m
    }
    fn assumptions() -> Vec<String> {
        vec!["the reference uses the recovered integer boundaries t1..t3 (the constructor truncates them to whole nanoseconds)".into(), "limits in [1e-2, 1e3], positions within +-1e4 mm as the quantifier states".into()]
    }
}
