//! rrtk-verif: property-based checks for the rrtk properties C01..C20.
//! usage: rrtk-verif <quick|thorough> <ID> | rrtk-verif replay <file>
#![allow(clippy::all)]
#![allow(dead_code)]

use checks::common::*;
use checks::*;

macro_rules! dispatch {
    ($id:expr, $f:ident, $($arg:expr),*) => {
        match $id {
            "C01" => $f::<c01::C01>($($arg),*),
            "C02" => $f::<c02::C02>($($arg),*),
            "C03" => $f::<c03::C03>($($arg),*),
            "C04" => $f::<c04::C04>($($arg),*),
            "C05" => $f::<c05::C05>($($arg),*),
            "C06" => $f::<mp::C06>($($arg),*),
            "C07" => $f::<mp::C07>($($arg),*),
            "C08" => $f::<c08::C08>($($arg),*),
            "C09" => $f::<c09::C09>($($arg),*),
            "C10" => $f::<c10::C10>($($arg),*),
            "C11" => $f::<c11::C11>($($arg),*),
            "C12" => $f::<c12::C12>($($arg),*),
            "C13" => $f::<c13::C13>($($arg),*),
            "C14" => $f::<c14::C14>($($arg),*),
            "C15" => $f::<c15::C15>($($arg),*),
            "C16" => $f::<c16::C16>($($arg),*),
            "C17" => $f::<c17::C17>($($arg),*),
            "C18" => $f::<c18::C18>($($arg),*),
            "C19" => $f::<c19::C19>($($arg),*),
            "C20" => $f::<c20::C20>($($arg),*),
            other => {
                eprintln!("unknown property id {}", other);
                2
            }
        }
    };
}

fn main() {
    let args: Vec<String> = std::env::args().collect();
    if args.len() != 3 {
        eprintln!("usage: rrtk-verif <quick|thorough> <ID> | rrtk-verif replay <file>");
        std::process::exit(2);
    }
    install_silent_panic_hook();
    let code = match args[1].as_str() {
        "quick" | "thorough" => {
            let tier = if args[1] == "quick" { Tier::Quick } else { Tier::Thorough };
            let ctx = RunCtx::from_env(tier);
            dispatch!(args[2].as_str(), run_property, &ctx)
        }
        "probes" => c16::list_probes(),
        // rrtk-verif corpus:<ID> <dir>: write the seed corpus of a property's fuzz target
        m if m.starts_with("corpus:") => {
            fn go<P: Property>(dir: &std::path::Path) -> i32 {
                checks::fuzz::write_corpus::<P>(dir)
            }
            let dir = std::path::PathBuf::from(&args[2]);
            dispatch!(&m[7..], go, &dir)
        }
        // run one libFuzzer input file through the fuzz entry point of a property: rrtk-verif fuzzone:<ID> <file>
        m if m.starts_with("fuzzone:") => {
            let data = std::fs::read(&args[2]).unwrap_or_default();
            fn go<P: Property>(data: &[u8]) -> i32 {
                checks::fuzz::run::<P>(data);
                0
            }
            dispatch!(&m[8..], go, &data)
        }
        "replay" => {
            let path = std::path::PathBuf::from(&args[2]);
            let text = std::fs::read_to_string(&path).unwrap_or_else(|e| {
                eprintln!("cannot read {}: {}", path.display(), e);
                std::process::exit(2);
            });
            let rf: ReplayFile = serde_json::from_str(&text).unwrap_or_else(|e| {
                eprintln!("cannot parse {}: {}", path.display(), e);
                std::process::exit(2);
            });
            let id = rf.property.clone();
            dispatch!(id.as_str(), replay_property, &rf, &path)
        }
        _ => {
            eprintln!("unknown mode {}", args[1]);
            2
        }
    };
    std::process::exit(code);
}
